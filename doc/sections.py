# -*- coding: utf-8 -*-
STATUS = """Status: **built** (all 20 properties have a registered check; C07 and C11 at level *exploration*, the others *model_checking*). Sections 1-3
keep the design text the machinery was built from; every property in section 3 ends with an **As built** paragraph, which is what actually
runs where the two differ. Sections: 1 why this family reaches what the suite cannot · 2 architecture shared by all properties · 3
per-property design and as-built notes (C01 … C20) · 4 what is *not* decided by the specification · 5 hooks · 6 known-findings protocol,
defects repaired and findings recorded · 7 how the specification keeps growing · 8 tool limits · 9 seeded changes: which check catches
what · 10 false alarms corrected in the machinery · 11 run log.
"""

TREE = """```
/verif
  DESIGN.md  MANIFEST.json  known_findings.json  hooks_commits.txt  properties.jsonl
  spec/                      one TLA+ module per subsystem (+ MC_*.tla/.cfg, *_Gen.tla, *_Hist.tla, *_Trace.tla, *.cfg.tmpl)
     Str.tla                 strings as sequences of 1-char strings
     TraceBase.tla           ndjson loading, cursor l, silent-step counter, reset event, high-water acceptance, Diagnose postcondition
     PathMatch.tla PathMatch_Gen.tla Router.tla Mount.tla ErrorHandler.tla
     CtxLifecycle.tla Immutable.tla Wire.tla Negotiation.tla TrustProxy.tla Binding.tla Flash.tla
     Limiter.tla Cache.tla Session.tla Csrf.tla Idempotency.tla MemoryLock.tla MemoryStore.tla
     ClientAssemble.tla ClientBody.tla ClientKV.tla CookieJar.tla ClientCore.tla Cors.tla EncryptCookie.tla
  harness/                   ONE Go package (go 1.26; replace github.com/gofiber/fiber/v3 => /repo), built per check with -tags verif
     io.go                   case reader, result/violation/sample/summary writer
     sched.go                gate scheduler + goroutine-state probe, DFS resumable by schedule prefix, seeded random schedules (2.4)
     gstore.go               gated fiber.Storage with TTL on utils.Timestamp(), fault injection, MessagePack decoding for events
     cNN_*_test.go           one replay/record driver per property (TestCNN..., selected with -test.run)
  vlib/                      python3 (stdlib only): core.py (TLC runner, harness build/drive, trace validation, evidence, known findings),
                             generic.py (generate-and-replay), cNN.py (one module per property)
  bin/check                  `bin/check C13 --tier quick|thorough [--replay f]`; bin/setup; bin/mkmanifest (regenerates MANIFEST.json);
                             bin/seedtest, bin/seedverify, bin/seedkeep, bin/seedmatrix, bin/seedmatrixwt (seeded-change tooling, section 9)
  evidence/<id>.json  replays/<id>/<hash>.json  seeded/<id><A..F>/{patch.diff, zz_seed_demo_test.go, meta.json}  seeded/RESULTS.tsv
```
"""

SEC4 = """## 4. What the specification does not decide (and why)

No property is declared not applicable (`MANIFEST.not_applicable` is empty), but two claims are deliberately weaker and are labelled so
in MANIFEST (`level_claimed.category = exploration`):

* **C07, the "every byte sequence / never panics / bounded allocation" half.** TLA+ can enumerate a grammar of request classes and
  prescribe status, connection fate and header well-formedness; it cannot quantify over raw bytes or observe memory. Crash, hang and
  allocation are generic run-time oracles attached to the replay, and coverage is grammar-directed enumeration plus seeded byte mutants of
  the templates -- not coverage-guided fuzzing, which the property's author names as the fitting tool and for which nothing installed here
  can be driven from a TLA+ specification. The header-injection, 501, error-mapping and connection-fate parts *are* decided by `Wire.tla`.
* **C11.** Encode/decode fidelity is the "wrong tool" case named in the brief: the specification's wire is the identity; what it
  contributes is the holder semantics (override, empty slices), the comma-splitting definition, the per-source representable domain, the
  error expectations and the exhaustive value x source x config x sequence product.
* **C20's cryptography** is symbolic; only the middleware's handling of issued / non-issued values is modelled, with the harness
  expanding mutations over every byte of real ciphertexts.

Parts of the original design that were **not built** (stated so that nobody reads the design text above as a claim): `RouterIndex.tla`
(C01), the concurrent variants of C05 and C15, pipelined-connection replay for C06, separate enumeration of
`AcceptsCharsets/Encodings/Languages` (C09), v4-mapped peer addresses (C10), per-case child processes under `ulimit -v` for C07, Apalache /
TLAPS proofs for `MemoryLock` (TLC exhausts the bounded model instead), the shared `Storage` sub-module (each spec carries its own
storage-with-TTL definitions).

Everywhere else the limits are the usual small-scope ones (constants stated per property and in each evidence file's `assumptions`) and
the observation boundary: code the drivers never reach (prefork, listen, TLS handshakes, template rendering, static files, the other
middleware) is outside these checks.
"""

SEC5 = """## 5. Hooks (guard: build tag `verif`; add-only; baseline suite runs with the tag off)

Almost none were needed: storages, lockers and callbacks are injectable, time is virtualised by synctest, lock waits are observed from
outside, and the pooled context can be observed through a recycled `fasthttp.RequestCtx`. Three commits in `/repo` (listed in
`hooks_commits.txt` and `MANIFEST.hooks.source_commits`), all add-only:

1. `9af1af1` -- `client/verif_on.go` (`//go:build verif`: `var VerifGate = func(string, *Request) {}` and `verifGate` forwarding to it),
   `client/verif_off.go` (`//go:build !verif`: empty `verifGate`), and **one added line** `verifGate("exec.afterCAS", c.req)` in `execFunc`
   between the worker's successful compare-and-swap and its copy/send.
2. `8e02e21` -- one added line `verifGate("exec.workerStart", c.req)` at the start of the worker goroutine (the harness maps the worker's
   goroutine to its request there, because the identity of a pooled `*Request` is not stable).

3. `adbaf31` -- `internal/memory/verif_on.go` / `verif_off.go` (same pattern, `VerifGate func(string)`), **one added line**
   `verifGate("gc.scanned")` in the memory store's garbage collector between its scan (read lock) and its sweep (write lock), and
   `middleware/limiter/verif_on.go` (`//go:build verif` only) which lets the harness install the gate although the package is internal.
   The C13 history replay serves requests inside that gap (a store operation made from the hook is exactly what another goroutine
   can do there: no lock is held).

A blocking `VerifGate` doubles as the scheduler gate for the `ClientCore` replay (C18). The white-box export file sketched in the design was
not needed and does not exist. `MANIFEST.hooks.baseline_off_cmd` runs the repository's suite without `-tags`.
"""

SEC6 = """## 6. Known-findings protocol; defects repaired; findings recorded

`/verif/known_findings.json`: a list of `{property, id, selector, what}` (open findings) and `{fixed: true, property, commit, what}` entries.
A selector is a conjunction of `dotted.field: regex` over the violation record the driver wrote (scenario fields and observed values -- never
a cause label invented by the harness); `bin/check` prints one `KNOWN-FINDING: property=<id> <what>` line per matched finding and exits 0;
anything not matched is a fresh `VIOLATION` and exit 1. The file is never written at run time; `fixed` entries suppress nothing (the check
simply passes on the repaired tree and reports the violation again if it returns).

**Genuine defects repaired** (each re-found by the machinery first, each one unguarded `fix:` commit in `/repo`; the repository's suite
passes unedited after each -- the four `middleware/proxy` tests that need DNS fail identically on the pinned tree):

| property | commit | what failed (input / schedule / history) |
|---|---|---|
| C02 | `ec56936` | `GET /user/:id<int>` (the pattern's own text) ran the handler after the constraint had failed (literal fallback) |
| C02 | `e188dc8` | `/:x-` on `/a/b-` captured `x = "a/b"`: a named parameter before a one-character literal spanned `/` |
| C03 | `11a0cd5` | `RoutePatternMatch("/a/", "/:x")` false although dispatch matches (trailing slash, non-strict) |
| C03 | `6150301` | `RoutePatternMatch` ignored `UnescapePath` and evaluated constraints on the case-folded path |
| C03/C01 | `d91bf3b` | `/a/:x?` (and `/a/*`, `/a/+` ...) answered 404 for `/a`: route indexed under its 3-byte prefix, 2-byte path looks in the global tree |
| C01 | `46a663b` | after `Path()`/`Method()` override the old tree index was reused: middleware ran twice / later matching routes answered 404 |
| C01 | `6bd4617` | `Use(/, override->POST); Get(/); Use(/, h)`: `h` never ran for `GET /` (the POST stack had merged the two `Use(/)`); `Use(/a); Post(/); Use(/a, override)` ran the overriding middleware twice |
| C04 | `c8ee2b3` | under a parameterised mount prefix the mounted handler never ran or saw shifted `Params`; root/star flags lost by mounting |
| C04 | `f811e1d` | a sub-app mounted at `/` inside a sub-app itself mounted at `/`: start-up nil dereference (first recorded as a finding; a later look found a four-line repair: expand a mounted app's own mounts before copying its routes) |
| C08 | `b918f62` | mounted error handler chosen without segment boundary (`/api` handler answered `/apix/boom`), map-order dependent, shadowing |
| C13 | `d080fab` | sliding window ignored `MaxFunc` |
| C13 | `eaf1939` | a skipped request that outlives its window was un-counted in the next window (limit + 1 admitted) |
| C14 | `a67f42a` | external storage + invalidation of an absent key + `MaxBytes`: `heap.remove` on an empty heap panics under the mutex |
| C14 | `bd72493` | entry fetched before the lock: two requests expiring the same entry both remove its heap index (panic + deadlock) |
| C14 | `ce6213b` | `StoreResponseHeaders`: a repeated origin header (`X-Multi: a`, `X-Multi: b`) was served from the cache with its last value only |
| C18 | `def2740` `335f592` `fa3377b` | cookie jar: purge without write-back, duplicate append / ignored deletions, keys aliasing request buffers and carrying the port |
| C18 | `ccc461a` `0c1bc9d` | cookies for `http://[2001:db8::1]:8080/` never sent to `http://[2001:db8::1]/`; cookies put into the jar by hand for a host with port / IPv6 literal never returned (found when IPv6 literal hosts were added to `CookieJar.tla`'s host pool) |
| C18 | `6d15e73` | `AddParams(k: [b, c]); SetParams(k: a)` sent `k=a&k=c`: `SetParam`, `SetParams`, `SetFormData`, `SetFormDataWithMap` (request and client) and `Client.SetHeader` replaced only the first of several values added before, against their documentation (found when `ClientKV.tla` was added) |
| C04 | `f401b3b` | `mount("/"){GET ""}; <a request is served>; mount("/"){use "/"}`: the second sub-app was never expanded -- the `sync.Once` guards of the mount expansion had been consumed by the first startup (found when `Mount.tla` got the `Serve` action) |
| C02 | `b7b6f7a` | a route registered as `/\\*` (escaped star: the literal path `/*`) handled every request, while its parser and `RoutePatternMatch` match `/*` only (found when every endpoint route of the C02 replay got its escape twin registered behind it) |
| C15 | `fb5d6ec` | `Reset()` cleared the data that holds the absolute deadline and set none for the new session: a session reset by a handler never expired absolutely (found by the thorough tier once `ByIDSave` kept sessions in use past their deadline) |
| C19 | `a85c266` | a wildcard-subdomain entry written with blanks in front (` https://*.example.com`, as a split of `a, b` yields) was cut at the position found in the untrimmed text: its sub-domains were refused and hosts beginning with a dot admitted (found by the quick tier once `Cors.tla` spelled list entries four ways: plain, trailing slash, upper case, blanks) |
| C18 | `fbc241a` | client timeout released a Response the worker was about to fill (`acquire answer cancel deliver`) |
| C18 | `fd7a868` | path parameter value `a b&c=d?e` arrived cut at `?` |
| C10 | `a7429d1` `b3a2d9c` | `Secure()` false on https; proxy listed as `2001:DB8::1` not trusted for peer `2001:db8::1` |
| C16 | `7171d2e` | valid unsafe https request with `Referer: https://trusted.example/form` rejected (referer compared with its path) |
| C05 | `6cd3566` | a partial / shorter flash cookie exposed the previous request's decoded messages (stale slots of the pooled slice) |
| C12 | `e12d1b6` `4477c10` | 5-byte cookie `dd ff ff ff ff` allocated 2^32-1 messages; flash cookie never expired (messages delivered on every later request) |
| C06 | `c9b6730` `c2dc3cb` | bound string fields and `Params` changed after the handler returned, also under `Immutable` |
| C07 | `9e4b00a` | unknown method + custom context (`NewCtxFunc`): `index out of range [-1]`, the process dies |
| C07 | `ca5d8ed` | CR LF in the argument of `Location`, `Redirect().To`, `Links`, `Type` charset, cookie value / path / domain added header lines or started the body |

**Findings recorded, not repaired** (each prints a `KNOWN-FINDING` line on the unchanged tree):

| id | what fails | why not repaired |
|---|---|---|
| `C18-jar-path-direction` | cookie with `Path=/api` is sent to `/` and not to `/api/x` (prefix test reversed) | the repository's `Test_CookieJarGet` asserts the reversed behaviour; the suite cannot stay unedited |
| `C12-raw-msgpack-cookie-conforming-client` | `net/http` refuses the redirect response / its jar drops the value: a conforming client never delivers any flash message | the redirect tests read and write the cookie as raw MessagePack; a printable encoding breaks them |
| `C12-raw-msgpack-cookie-control-bytes` | control bytes, `;`, `,`, `"`, blank, backslash from levels, lengths and values inside the cookie value, even for a byte-transparent peer | same |
| `C07-nul-in-cookie-value` | NUL in a cookie value reaches `Set-Cookie` (`Cookie{Value:"a\\x00b"}`; every flash cookie encodes level 0 as `0x00`) | same root cause: `Cookie()` cannot strip NUL from values while the flash cookie is raw MessagePack |
| `C18-set-reorders-other-values` | a `Set` / `Del` call on one key can swap the order in which the values of another multi-valued key are sent (`AddHeader(X-K1, a); AddHeaders(X-K2: [c, b]); SetHeader(X-K1, a)` sends `X-K2: b` before `X-K2: c`); all values arrive, each once | `Set` deletes the key first and fasthttp's `Del` moves the last entry into the freed slot: the reordering is inside the dependency; an order-preserving `Set` would have to rebuild the holder |
| `C11-cookie-holder-single-valued` | cookie source: a slice with several elements arrives with its last element only | `client.Cookie` is a `map[string]string`; several values per name need a different exported holder type |
"""

SEC10 = """## 10. False alarms corrected in the machinery (the code was right, the check was wrong)

Each of these first showed up as a red check on the unchanged tree, was traced to the model, harness or oracle, and was corrected there;
none is listed as a finding and no check was loosened below what its statement says.

* **PathMatch (C02/C03).** Undocumented parameter runs (`+*`, `++`, `+:x`) excluded from `WellFormed`; letter tables of `Str.tla` completed;
  `?` inside an adversarial path is a query delimiter; `+` is decoded to a space only under `UnescapePath`, excluded from the pool; `NoExtra`
  must be evaluated on the case-folded path; values ending in `/` under non-strict routing are indistinguishable from an ignored trailing
  slash and are outside C03's precondition; lenient mode got `RestDroppable` (a trailing run of optional segments).
* **C01.** Merged duplicate registrations are one route with a longer handler list (documented); a handler that runs more than 50 times is
  recorded as an observation by a guard instead of hanging the driver.
* **C06.** fasthttp lower-cases `Host` in place: compare with the first read. **C20.** binary value class restricted to cookie-octets.
  **C18.** cookies without an explicit `Path` are not modelled (default-path rule). **C16.** the harness's DELETE route is an unsafe request;
  session back end has its own `Put/Drop` token semantics. **C14.** eviction ties cut the comparison (`amb`); the incomplete last request of
  a simulated history is skipped; `NoStuck` replaces TLC's deadlock check; `Tick` only while the mutex is free. **C13.** clock-dependent
  invariants after `Tick`. **C09.** 406 is a status not an error; default handler with absent `Accept` not asserted. **C07.** 404 for a space
  in the target is legitimate; only CR / LF / NUL are rejected in values. **C11.** body codecs are not comma-split; comma-carrying values
  under splitting are not compared; the handler must read the status *before* `c.Status(422)`.
* **C18 (thorough tier only).** A cookie put into the jar directly with a 2 s lifetime and read after a 2 s tick sits exactly on its
  deadline, where the jar's two code paths (`Before` / `After`) disagree and the statement says nothing; cookies that travel over HTTP never
  do (their `Expires` has whole seconds). The driver now sets direct cookies a quarter second off the tick grid. The quick tier's 200
  histories had never produced the case; 1 500 did.
* **Scheduler (C13, C14, C17), seen once in ~15 runs on a busy machine.** "Nobody can be released and not everybody is done" was reported
  as a deadlock although the run was healthy: a goroutine had been sampled in a *transient* mutex wait (the classification reads wait
  reasons from `runtime.Stack`). Before a deadlock is reported the blocked goroutines are now re-examined in real time (raw `nanosleep` /
  `gettimeofday`, which also work inside a synctest bubble) for 400 ms (60 ms after ten confirmed deadlocks in one process, so that a code
  change that deadlocks most schedules does not make the exploration crawl); the number of rescues is in the evidence
  (`transient_blocks_resolved_by_patience`).
* **C05 (thorough tier only, once).** With a fresh application for *every* one of 3.5 M histories, each `SendFile` call created a
  fasthttp file handler that keeps its file open for 10 s and owns a goroutine; run beside another job, the process ran out of file
  descriptors and `SendFile` answered 984 probes with a nil-pointer panic. The driver's fault: fresh applications are now reserved for
  histories that touch that store, and capped.
* **C14 (thorough tier only).** The trace specification prescribed *which* free tracking index a new heap entry gets (the smallest);
  the code re-uses indices of removed entries in its own order, and after two evictions in one request the two differ. The index is an
  internal name: traces now accept any unused index (`AnyIdx = TRUE`), the design check keeps the canonical choice as a symmetry reduction.
* **C07 (new helper, first run).** `Redirect().WithInput()` with a 6 000-byte text put the text into the request line: the server
  rightly answered 431 (read buffer 4 096). The driver now caps client-supplied flash text at 3 000 bytes.
* **C14, silent truncation found while reading the heap code.** `HeapPut` chose its tracking index from `0..|Keys|`; a no-cache refresh
  leaves the superseded entry of its key in the heap, so with small bodies the heap can hold more entries than there are keys and the
  step was silently disabled -- TLC simply never generated such histories. The range now grows with the heap.
* **Harness errors** (would have discredited real rejections): unlock events logged after the release were reordered against the next
  lock -> log before release, lock events after acquisition; a double `resp.Close()` put one Response into the pool twice; pooled `*Request`
  identity is unreliable -> second hook + goroutine-id mapping; a recycled `RequestCtx` needs `ResetUserValues()`; flash parsing needs
  wire-parsed requests (`RawHeaders`); the violation cap hid fresh violations behind known ones (raised to 100 000); TLC's `-simulate`
  evaluates invariants on every successor of the last state, so histories are printed many times -> de-duplicated before replay (one run
  hung for 20 min on 9 221 duplicates); the cache's refresher goroutines made long explorations super-linear -> resumable chunks.
* **Driver deaths caused by the code under test** are converted into observations only where the death is the property's own failure
  mode (C01 run-away loop, C07 server panic, C12 out-of-memory on a hostile cookie, panics inside a handler -> status 599); every other
  death, TLC time-out or out-of-memory is exit 2.
"""

SEC7B = """**As built (how it grew).** The shared `Storage` sub-module of the plan was not built as a module of its own: the limiter, cache, CSRF, session and
idempotency specifications each carry their store with deadlines, and `MemoryStore.tla` (added late) specifies the in-process store they all fall back to.
Modules that were not in the plan and exist: `Wire.tla` (C07), `Binding.tla` (C11), `ClientBody.tla` and `ClientKV.tla` (C18), `MemoryStore.tla` (C13/C14).
Growth after every property had a check came almost entirely from the seeded changes (section 9): each batch of fresh changes that slipped through named a
dimension the specification had left out, and adding it to the *specification* repeatedly turned up defects of the code nobody had been looking for --
`6bd4617` (route merging, from three registrations), `f811e1d` and `f401b3b` (mounts, from nested root mounts and from `Serve`), `ce6213b` (cache headers),
`ccc461a`/`0c1bc9d` (cookie jar, from IPv6 hosts), `6d15e73` (client setters, from `ClientKV.tla`), `b7b6f7a` (escaped star, from the escape twin), `fb5d6ec`
(session reset, from `ByIDSave`). Of the follow-up list above, `Redirect().Route` (C12 `via`), `GetRouteURL` (C06 churn), `Fresh` (C07) are touched;
`RestartRouting`, hooks ordering, `State`, timeout / recover middleware, keyauth / basicauth and the retry add-on are still not specified.
"""
