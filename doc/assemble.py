# -*- coding: utf-8 -*-
import re, json, os, sys
sys.path.insert(0, os.path.dirname(os.path.abspath(__file__)))
from asbuilt import ASBUILT
from sections import STATUS, TREE, SEC4, SEC5, SEC6, SEC10, SEC7B
p = '/verif/DESIGN.md'
s = open(p).read()
# strip earlier generated parts (idempotent)
s = re.sub(r'\n\*\*As built[^\n]*\n(?:[^\n]+\n)*', '\n', s)
for marker in ('## 9. Seeded changes', ):
    i = s.find(marker)
    if i >= 0:
        j = s.find('## Appendix')
        s = s[:i] + s[j:]
# 1. status paragraph
s = re.sub(r'Status: .*?\n\n', STATUS + '\n', s, count=1, flags=re.S)
# 2. tree
s = re.sub(r'```\n/verif\n.*?```\n', TREE, s, count=1, flags=re.S)
# 3. as-built paragraphs: before the next "### C" heading or the section rule after C20
heads = list(re.finditer(r'^### (C\d\d) ', s, flags=re.M))
out = []
last = 0
# build insertion points: end of each property's block
blocks = []
for k, h in enumerate(heads):
    start = h.start()
    end = heads[k + 1].start() if k + 1 < len(heads) else s.find('\n---', start)
    blocks.append((h.group(1), start, end))
new = s
for pid, start, end in reversed(blocks):
    if pid == 'C03':
        continue
    txt = ASBUILT.get(pid)
    if pid == 'C02':
        # C02/C03 share a block that starts at C02's heading; the block end is C04's heading
        end = [b for b in blocks if b[0] == 'C03'][0][2]
    if not txt:
        continue
    body = new[:end].rstrip('\n') + '\n' + txt.rstrip('\n') + '\n\n'
    new = body + new[end:]
s = new
# 4-6 replace sections
def repl_section(s, title_re, text):
    m = re.search(title_re, s, flags=re.M)
    assert m, title_re
    nxt = s.find('\n---', m.start())
    return s[:m.start()] + text.rstrip('\n') + '\n' + s[nxt:]
s = repl_section(s, r'^## 4\. What the specification does not decide', SEC4)
s = repl_section(s, r'^## 5\. Hooks', SEC5)
s = repl_section(s, r'^## 6\. Known-findings protocol', SEC6)
_m7 = re.search(r'^## 7\. How the specification keeps growing', s, flags=re.M)
_n7 = s.find('\n---', _m7.start())
s = s[:_n7].rstrip('\n') + '\n\n' + SEC7B.rstrip('\n') + '\n' + s[_n7:]
# 9-11 before the appendix
rows = []
res = {}
rp = '/verif/seeded/RESULTS.tsv'
if os.path.exists(rp):
    for l in open(rp).read().splitlines()[1:]:
        f = l.split('\t')
        res[f[0]] = f
sec9 = ["## 9. Seeded changes: which check catches what", "",
 "One hundred and twenty realistic code changes (`seeded/<id><A-F>/`) were written by fresh sub-agents that were given only the property text and a",
 "scratch git worktree of `/repo` -- nothing from `/verif`; later rounds were also told the mechanisms of the earlier ones so that they would look elsewhere.",
 "Each change compiles and keeps the repository's suite green; each comes with a demonstration",
 "test that passes on the unchanged tree and fails with the patch, which I re-ran myself in a scratch worktree before keeping the change",
 "(`bin/seedverify`; `meta.json.confirmed_by_me`). `bin/seedtest <dir> <tier> <ids>` applies a patch to `/repo` (3-way), runs the named checks and",
 "reverts; `bin/seedmatrix` does it for all of them and writes `seeded/RESULTS.tsv`; `bin/seedmatrixwt` does the same without touching `/repo`'s working tree (scratch",
 "worktree of HEAD + scratch copy of `/verif`, `VERIF_REPO` pointing the checks at the worktree), which is how the last measurements were taken. No patch was ever committed to `/repo`; all worktrees are removed.",
 "Patches rebased after my own fixes or hooks moved the surrounding code: C04A, C05B, C13B, C13F, C18A, C18B, C18C. Neutralised by my own fixes: C07B, C12B, C14B, C04F. Two detections turned out to depend on chance (C02C on the pooled context surviving between two requests under load, C15D on the sampled histories) and were made deterministic (a value-laden request before every observed one; a focused configuration).",
 "",
 "How the checks did **as they stood** when each batch arrived is the honest measure of how far they generalise:",
 "",
 "| batch | changes | caught as the checks stood | missed |",
 "|---|---|---|---|",
 "| 1 (A, B; all 20 properties) | 40 (37 live) | 37 | 0 |",
 "| 2 (C, D; 12 properties) | 24 | 16 (after I had extended three specifications for misses I expected from the authors' reports) | 8 |",
 "| 3 (C, D; the other 8 properties) | 16 | 4 | 12 |",
 "| 4 (E, F; the 12 properties of batch 2) | 24 | 8 (`seeded/ROUND4_AS_STOOD.tsv`) | 16 |",
 "| 5 (E, F; the 8 properties of batch 3) | 16 | 4 (`seeded/ROUND5_AS_STOOD.tsv`) | 12 |",
 "",
 "So from the second batch on roughly half to two thirds of the fresh changes slipped through checks that had caught everything before -- the scopes",
 "chosen while building had been shaped by the defects found while building. Every miss pointed at a dimension the specification had left out (a",
 "spelling of a prefix, how a registration is written, a value class, a second application, a recycled buffer, a failing handler, a request in the middle",
 "of the program, another component's clock, the collector's gap, call sequences on a holder ...), and the *specification* -- not just the driver -- was",
 "extended until the change was caught; no check was loosened. Extending it found five more genuine defects on the way (`f401b3b`, `6d15e73`, `b7b6f7a`, `fb5d6ec`,",
 "`C18-set-reorders-other-values`). Final state: every live change is caught by the quick tier (table below), 4 are neutralised by my own fixes.",
 "The notes column says what was added. (A `-` in the violations column: measured with the first version of `bin/seedmatrixwt`, which kept the exit code only.)", "",
 "| seed | change (one line) | caught by (quick tier) | rc | violations | notes |", "|---|---|---|---|---|---|"]
NOTES = {
 'C02E': 'missed at first; every endpoint route is followed by its escape twin (found `b7b6f7a`)',
 'C02F': 'missed at first; a custom constraint registered under the built-in name `float`',
 'C03E': 'caught as the check stood', 'C03F': 'caught as the check stood',
 'C06E': 'missed at first; shape `unmatched`, accessor `routepath`',
 'C06F': 'missed at first; `SendFile` among the churn steps, a connection whose buffers have grown',
 'C08E': 'missed at first; forests mounted through a `Group`',
 'C08F': 'missed at first; error kind `wrapped418`',
 'C10E': 'missed at first; zone-suffixed IPv6 literals in the forwarded list',
 'C10F': 'caught as the check stood',
 'C12E': 'missed at first (then hidden behind the driver\'s record cap); text class `pct`',
 'C12F': 'missed at first; `Faults` (failing receiver, failing error handler)',
 'C19E': 'missed at first; configuration `blank`',
 'C19F': 'caught as the check stood',
 'C20E': 'missed at first; value class `huge`',
 'C20F': 'missed at first; value class `issued`',
 'C01E': 'missed at first; `Router.tla` got `Vias` (registration through a group / with the prefix in a list)',
 'C01F': 'missed at first; `Router.tla` got `NormRespected` over the measured match relation (`EquivTable`)',
 'C04E': 'caught as the check stood',
 'C04F': 'missed at first; `Mount.tla` got `Serve` (a request in the middle of the program) -- which also found `f401b3b`',
 'C05E': 'missed at first; kinds `viewrender` / `localsrender`, probe `rendernil`',
 'C05F': 'missed at first; kind and probe `jsonp` behind a middleware that works after the handler returned (concurrent replay)',
 'C07E': 'missed at first; conditional requests with hostile `Cache-Control` lists',
 'C07F': 'missed at first; helpers `flashlevel`, `flashinput`, length classes',
 'C09E': 'caught as the check stood',
 'C09F': 'missed at first; offer-only token `t1x`, empty list elements',
 'C11E': 'caught as the check stood', 'C11F': 'caught as the check stood',
 'C13E': 'caught as the check stood',
 'C13F': 'missed at first; `MemoryStore.tla` + hook `adbaf31`: requests served in the collector\'s gap',
 'C14E': 'missed at first; history variant without the shared clock (`ownClock`)',
 'C14F': 'caught as the check stood',
 'C15E': 'caught as the check stood',
 'C15F': 'missed at first; `Session.tla` got `ByIDSave`',
 'C16E': 'caught as the check stood',
 'C16F': 'missed at first; every Origin class now meets every Referer class',
 'C17E': 'missed at first; per-execution header names, trace field `only`',
 'C17F': 'missed at first; `KeepResponseHeaders` spelled in mixed case',
 'C18E': 'missed at first; `ClientKV.tla` -- which also found `6d15e73`',
 'C18F': 'missed at first; context deadline next to the timeouts (`Cut`)',
 'C02C': 'caught as the check stood (the stale catch-all value also shows in C05)',
 'C02D': 'missed at first; `PathMatch.tla` got a non-ASCII letter (three bytes, percent-encoded and raw) among the values',
 'C03C': 'missed at first; the pattern pool got a two-byte delimiting literal whose first byte also occurs inside values',
 'C03D': 'caught as the check stood',
 'C06C': 'missed at first; `Immutable.tla` got the `Churn` step and `StableInHandler`: values must still read as taken after the handler used scratch-buffer helpers',
 'C06D': 'missed at first; accessor `Range().Type` added',
 'C08C': 'missed at first; the app pool got a prefix written with a trailing slash at the mount call',
 'C08D': 'missed at first; the app pool got a prefix with capitals (requested in the same spelling)',
 'C10C': 'missed at first; `TrustProxy.tla` got forwarded scheme values other than https',
 'C10D': 'missed at first; a sibling application derived from `Config()` is created before any request (Out has no argument for other applications)',
 'C12C': 'caught as the check stood',
 'C12D': 'missed at first; `Flash.tla` got the way the redirect is issued (To / Route / Route with queries / Back)',
 'C19C': 'caught as the check stood',
 'C19D': 'missed at first; all cases are now served on one recycled RequestCtx, as a keep-alive connection does',
 'C20C': 'missed at first; `EncryptCookie.tla` got the outcome of the first handler (returns an error after setting the cookies)',
 'C20D': 'missed at first; the first step is also performed by 8 clients at once on one middleware instance',
 'C14B': 'neutralised by fix `bd72493` (the flipped release guard is unreachable once the entry is fetched under the lock); demonstration no longer fails',
 'C12B': 'neutralised by fix `6cd3566` (decoding starts from zeroed slots)',
 'C07B': 'neutralised by fix `ca5d8ed` (every value written through `setCanonical` is sanitised); the argument class `utf8crlf` was added to `Wire.tla` anyway',
 'C07A': 'server dies: reported as `wire-server-crashed`',
 'C11B': 'also caught by C05 (probe after an auto-handling request on the recycled context)',
 'C11A': 'needs the `SetPrior` action (an earlier SetStruct on the same holder)',
 'C01C': 'expected miss in the quick tier (needs three registrations; thorough tier had them): small three-registration variant added to the quick tier before measuring',
 'C01D': 'expected miss; `Router.tla` got registrations for several methods at once (`GET+POST`) before measuring',
 'C04D': 'missed at first; the mount-open form now passes the prefix in its list form',
 'C05C': 'expected miss; probe for an empty catch-all added before measuring',
 'C05D': 'missed at first (one application served all histories, so only the first SendFile configuration of the process mattered); every history now runs on a fresh application',
 'C07C': 'missed at first; `Wire.tla` got the request class `removedstandard` with a status that depends on the application variant',
 'C07D': 'missed at first; `Wire.tla` got the `Burst` action (32 connections x 6 rounds on first-use SendFile / Download)',
 'C15C': 'missed at first; `Session.tla` now lets a handler write to a session it destroyed',
 'C15D': 'missed at first; `Session.tla` got `ReGet` and a focused configuration that keeps one session alive across its absolute deadline',
 'C18C': 'missed at first (no IPv6 literal hosts in `CookieJar.tla`); adding them exposed a defect of my own earlier fix (`ccc461a`, `0c1bc9d`)',
 'C18D': 'missed at first; `ClientAssemble.tla` got the timeout component, observed on a slow endpoint together with the next request',
 'C11C': 'suite stays green only through test order (three bind tests fail in isolation with the patch)',
}
for d in sorted(os.listdir('/verif/seeded')):
    mp = '/verif/seeded/%s/meta.json' % d
    if not os.path.exists(mp):
        continue
    m = json.load(open(mp))
    summ = m['summary'].replace('|', '/').replace('\n', ' ')
    summ = summ[:150].rsplit(' ', 1)[0] + ' …'
    r = res.get(d)
    st = m.get('status_on_current_tree', 'live')
    if r:
        rc, nv = r[4], r[5]
        caught = (r[1] if rc == '1' else ('— (neutralised)' if st != 'live' else '**missed**' if rc == '0' else 'inconclusive'))
    else:
        rc, nv, caught = '?', '?', 'not yet run'
    sec9.append('| %s | %s | %s | %s | %s | %s |' % (d, summ, caught, rc, nv, NOTES.get(d, '')))
sec9 += ["", "rc 1 = the check exits 1 with `VIOLATION` lines while the patch is applied; rc 0 on a neutralised seed is the expected outcome (the property",
 "holds again on that tree). On the unchanged tree every check exits 0.", ""]
sec11 = open('/verif/doc/runlog.md').read() if os.path.exists('/verif/doc/runlog.md') else "## 11. Run log\n\n(to be filled)\n"
tail = '\n'.join(sec9) + '\n' + '-' * 93 + '\n\n' + SEC10 + '\n' + '-' * 93 + '\n\n' + sec11 + '\n' + '-' * 93 + '\n\n'
i = s.find('## Appendix')
s = s[:i] + tail + s[i:]
open(p, 'w').write(s)
print(len(s.splitlines()), 'lines')
