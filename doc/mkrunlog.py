#!/usr/bin/env python3
"""doc/mkrunlog.py <thorough-log> <soak-log>... : writes doc/runlog.md (DESIGN.md section 11) from bin/runall logs."""
import re, sys, os, collections
def parse(path):
    rows = []
    for l in open(path):
        m = re.match(r'(C\d\d) tier=(\w+) seed=(\d+) rc=(\d+) wall=(\d+)s (\d+) violation-lines (\d+) known-lines \| (.*)', l)
        if m:
            d = dict(zip(("id", "tier", "seed", "rc", "wall", "viol", "known"), m.groups()[:7]))
            rest = m.group(8)
            for k in ("evaluations", "nontrivial", "states", "traces"):
                mm = re.search(k + r'=(\d+)', rest)
                d[k] = int(mm.group(1)) if mm else 0
            rows.append(d)
    return rows
out = ["## 11. Run log", "",
       "All runs below are on the unchanged tree (the repository at its last `fix:` commit), produced with `bin/runall <tier> <seed>`; exit code 0 everywhere means",
       "no `VIOLATION` line; `known` counts the `KNOWN-FINDING` lines (C07, C11, C12, C18 have open findings). Wall times are for this 16-core sandbox with",
       "a second job running at low priority beside the thorough run.", ""]
th = parse(sys.argv[1])
out += ["**Thorough tier, seed 1**", "", "| check | rc | wall | states (TLC) | behaviours / traces bound to the code | evaluations | known-finding lines |", "|---|---|---|---|---|---|---|"]
for r in th:
    out.append("| %s | %s | %ss | %s | %s | %s | %s |" % (r["id"], r["rc"], r["wall"], format(r["states"], ","), format(r["traces"], ","), format(r["evaluations"], ","), r["known"]))
tot = sum(int(r["wall"]) for r in th)
out += ["", "Total %d min. " % (tot // 60), ""]
soak = []
for p in sys.argv[2:]:
    soak += parse(p)
by = collections.defaultdict(list)
for r in soak:
    by[r["id"]].append(r)
out += ["**Quick tier, seeds %s** (every check once per seed; all exit codes and the spread of wall times)" % ", ".join(sorted({r["seed"] for r in soak}, key=int)), "",
        "| check | runs | exit codes | wall min-max | states | behaviours / traces |", "|---|---|---|---|---|---|"]
for cid in sorted(by):
    rs = by[cid]
    out.append("| %s | %d | %s | %s-%ss | %s | %s |" % (cid, len(rs), " ".join(sorted({r["rc"] for r in rs})), min(int(r["wall"]) for r in rs), max(int(r["wall"]) for r in rs),
                                                    format(max(r["states"] for r in rs), ","), format(max(r["traces"] for r in rs), ",")))
out += ["", "The repository's own suite with the `verif` tag off (`go test -vet=off -count=1 ./...` in `/repo`, go 1.23.5): every package `ok` except",
        "`middleware/proxy`, whose four tests that resolve `google.com` fail exactly as on the pinned tree (no network in the sandbox).", ""]
_extra = os.path.join(os.path.dirname(os.path.abspath(__file__)), "runlog_extra.md")
if os.path.exists(_extra):
    out += open(_extra).read().splitlines()
open(os.path.join(os.path.dirname(os.path.abspath(__file__)), "runlog.md"), "w").write("\n".join(out) + "\n")
print("\n".join(out[:12]))
