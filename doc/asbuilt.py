# -*- coding: utf-8 -*-
ASBUILT = {}
ASBUILT["C01"] = """**As built.** `spec/Router.tla` + `MC_Router.tla/.cfg` (table, cursor, `Dispatch/HandlerNext/HandlerStop/Rewrite/Override/Exhausted`,
invariants `RanOnlyMatching`, `RanInRegistrationOrder`, `EachOnlyAfterPredecessorNext`); `harness/c01_test.go` (`TestC01Measure` writes the
measured `MatchSet` into `MC_Router_data.tla`, `TestC01` replays). Quick: all tables of <= 2 registrations over a 9-pattern pool x 10 paths x 3
methods under default/all-on configs and default/custom context (1.0 M states, 411 k scenarios replayed, 40 s); thorough: 3 registrations over a
sub-pool. `RouterIndex.tla` (the refinement model of the 3-byte index) was **not** built: the two index defects it was meant to expose were
re-found by the forward replay itself and are fixed (`d91bf3b`, `46a663b`); the index is now covered only through `Router`'s observable
behaviour. The thorough tier's 3-registration run was the first to let TLC find a violation **on the specification itself**:
`RanOnce` / `RanInRegistrationOrder` failed for `Use(/a); Post(/); Use(/a, override->POST)` + `PUT /a`, because the first version of the spec
copied the code's per-method-stack merging of duplicate registrations. The spec was rewritten to say what the statement says (the rest of the
chain after an override = later-registered registrations of the current method's stack; only *consecutive* duplicate registrations form one
route), the replay then showed 2 076 of 984 600 three-route scenarios differing on the real router (a trailing `Use` never run after a method
override, or the overriding middleware run twice), and `6bd4617` repairs it (merge only consecutive registrations, so that all method stacks
group alike). The quick tier also runs all tables of three registrations over a two-pattern pool, with registrations
made for two methods at once (`app.Add([GET, POST], ...)`, kind `GET+POST` in the spec): the smallest tables in which an endpoint, a later
middleware and another method's endpoint meet. Quick 40-90 s (537 k scenarios), thorough ~8 min (3.5 M). A run-away guard in the driver turns "a handler ran more than 50 times" into an observation instead of a hung driver (the
double-execution defect looped under one table). After the fourth batch of seeded changes the specification gained two things: `Vias` -- how each registration is *written* (directly, through a `Group` whose prefix is the head of the pattern, with the prefix in a one-element list, or both) does not enter the dispatch, the replay writes it that way (variants `vias*`) -- and `NormRespected`, a law on the *measured* match relation: spellings of a path that the configuration declares equal (`EquivTable`: `/abc` = `/ABC` without case sensitivity, = `/%61bc` under `UnescapePath`, = `/%41bc` under both, = `/abc/` without strict routing ...) are handled by the same routes; TLC evaluates it on the measured relation and the check names the witnesses (variants `norm*`)."""
ASBUILT["C02"] = """**As built (C02 and C03 share `vlib/c02.py`).** `spec/PathMatch.tla` (reference relations `AllMay`/`AllMust`, `WellFormed`, `Delimited`, `NoExtra`,
`RestDroppable`), `PathMatch_Gen.tla` (+ pools small/mid/full, `ExtraPats`, the C03 lemma as an invariant), `harness/c02_test.go`. Quick: 467 k
(pattern, path, config) cases, 35 s; thorough ~5 min. Both statements are decided from one replay; the verdict is split by the kind of
disagreement. Values include a non-ASCII letter in both spellings (three bytes `B+E2 B+84 B+AA`, and `%E2%84%AA` decoded under `UnescapePath`), and a
two-byte delimiting literal whose first byte also occurs in values. Fixed on the way: `ec56936`, `e188dc8` (C02), `11a0cd5`, `6150301`, `d91bf3b` (C03). After the fifth batch of seeded changes: every endpoint route is followed by its *escape twin* (the pattern with its first parameter marker escaped, `/items/\\:id`), a route of its own that handles exactly the paths `RoutePatternMatch` says its text matches -- which at once found `b7b6f7a` (a route registered as `/\\*` handled every path) -- and a constraint of the application's own registered under the name of a built-in one (`:u<float>`, odd length: the registered constraint is the declared one)."""
ASBUILT["C04"] = """**As built.** `spec/Mount.tla` (+ `MC_Mount*.cfg`; actions `AddRoute`, `Open(group|mount)`, `Close`, `Rebuild` -- a request served between two
registrations, which forces the route tree to be rebuilt while mounts are pending), `harness/c04_test.go` building every program three ways
(mounts before / after population -- the former with the prefix in its list form `Use([]string{p}, sub)` --, groups, flat). Quick 165 k
states, 62 k programs, 33 s; thorough 2 routes / 3 containers / depth 3: 2.5 M states, 824 k programs, 9.5 min (3/3/3 with the larger pools
passed 127 M states without finishing and was abandoned). Fixed: `c8ee2b3` (params / root / star flags of
mounted routes) and `f811e1d` (a sub-app mounted at "/" inside a sub-app that is itself mounted at "/": start-up nil dereference -- first kept
as the known finding `C04-nested-root-mount`, then repaired when a four-line fix turned up; the check now has no open finding). The `Serve` action (the application starts and answers a request in the middle of the program; what is registered afterwards means what it always means) was added after the fourth batch of seeded changes and at once found `f401b3b`: a sub-app mounted after an app that already had a mount went through startup was never expanded."""
ASBUILT["C05"] = """**As built.** `spec/CtxLifecycle.tla` (+ `MC_CtxLifecycle.cfg`, `_mutant.cfg`: forgetting to reset one field must violate `NoForeignData`) and
`harness/c05_test.go`: every history of <= 2 (thorough 3) preceding requests from 15 kinds x 5 probes is served **from wire bytes on one recycled
`fasthttp.RequestCtx`** (flash-cookie parsing reads `RawHeaders`, which only a wire-parsed request has), GC off, pointer identity of the pooled
context recorded; a history that uses the SendFile handler store runs on a **fresh application** (the store starts empty, so what the probe
sees can only come from its own history; capped at 4 000 per process because every SendFile handler owns a goroutine and an open file), the
others share an application that is renewed every 1 000 histories. Kinds and probes added after the second round of seeded changes: an optional
parameter and a catch-all left empty by the probe, `SendFile` with and without `MaxAge`. The same histories are then run by 8 goroutines at
once against one application (`TestC05Conc`; contexts migrate between goroutines, counted). The white-box export hook of section 5 was not needed. Fixed: `6cd3566` (stale flash
slots). The seeded change C11B (a `Bind` object surviving in the pooled context) is caught here as well. Later additions: views rendered *without* bind data of their own after `ViewBind` / `Locals` (`PassLocalsToViews` on; fields `renderbind`), and `JSONP` behind a middleware that keeps working after the handler returned (`respbody`: the bytes the response points at stay the request's own until it is written) -- the latter only shows in the concurrent replay."""
ASBUILT["C06"] = """**As built.** `spec/Immutable.tla` (+ mutant config: an aliasing accessor under `Immutable` must violate the invariant) and `harness/c06_test.go`
as a *forward* replay (TLC enumerates option x request shape x reuse history; the driver captures 25 accessor values without copying, serves
the later requests on the same `RequestCtx`, compares every captured value with its byte copy) rather than the backward trace validation
sketched above -- every step is deterministic, so the prescribed observation is simply "unchanged". Fixed: `c9b6730` (binders), `c2dc3cb`
(`Params`). After the seeded changes the specification gained a `working` phase: `Churn` steps stand for the handler using helpers that write to
the context's scratch buffers (`Links`, `String`, `Attachment`, `GetRouteURL`) and `StableInHandler` requires the values taken before to
read the same at the end of the handler (`MC_Immutable_scratch.cfg`, an accessor backed by scratch memory, must fail); `Range().Type` joined the accessors. False alarm corrected: `Host` is lower-cased by fasthttp in place; the comparison is against the value as first read. Fifth batch: shape `unmatched` (a request no route matches is captured in the application's error handler, accessor `routepath` = `Route().Path`), `SendFile` among the churn steps, and every scenario runs on a connection whose buffers have grown (a long target was served on it before). Session 4: shapes `forwarded` and `forwardedlist` (the peer is a trusted proxy; `X-Forwarded-Proto/-Host/-For` single- or list-valued, written in front of the Cookie header because fasthttp moves the cookie slot to the end on first use and the slots behind it would be reallocated instead of overwritten by the reuse requests); accessors `scheme` and `ips` joined `Accessors`; host, base URL and sub-domains are then the forwarded ones."""
ASBUILT["C07"] = """**As built (level: exploration).** `spec/Wire.tla`: `Read1 -> Reject(st) | Dispatch(st, helper, arg) -> Second`, `Status(class)` the set of statuses a
request class may be answered with, `Closing(st)` the connection fate as a function of the status, invariant `NoResponseAfterMalformed`; 14
request classes x 16 helpers x 8 argument classes (CR, LF, CRLF + header line, CRLFCRLF + body, NUL, 6 KB, non-ASCII + CRLF, plain) x 5
application variants (default / custom context / Immutable / custom `RequestMethods` / `UnescapePath`, all with small `BodyLimit` and
`ReadBufferSize`). `harness/c07_test.go` sends raw bytes over `fasthttputil.InmemoryListener`, parses with its own strict parser (CRLF line ends,
token names, no CR/LF/NUL in values -- RFC 9110 5.5 -- Content-Length framing), measures `TotalAlloc` per exchange, probes the connection with a
second request. The handler first calls every request accessor on the (possibly hostile) request. The classes `hostileheaders` / `hostileframing` are expanded by the driver into ~190 concrete members (one
hostile Range / Accept* / Cookie / Content-Encoding / X-Forwarded-* / If-None-Match ... resp. Host / Transfer-Encoding / multipart boundary value
each); `removedstandard` is a standard method the variant's `RequestMethods` has removed (501 there, 200 elsewhere); `Burst` is 6 rounds of 32
connections at once on the plain handler and on `SendFile` / `Download` with options nobody used before (every request must be answered). A
second part sends seeded byte-level mutants of the templates (3 000 quick / 60 000 thorough) with the spec's status universe and `Closing` as
oracle. A server crash is
reported as a violation (`wire-server-crashed`), not as exit 2, because the crash *is* the property's failure mode; any other driver death
is exit 2. Not built: child process under `ulimit -v` per case (one process per check instead), `net/http.ReadResponse` as second parser.
Fixed: `9e4b00a` (custom context + unknown method: `index out of range [-1]`, process dies), `ca5d8ed` (header injection through `Location`,
`Redirect().To`, `Links`, `Type` charset, cookie value / path / domain; NUL through `Set/Append/Vary`). Open finding `C07-nul-in-cookie-value`.
False alarms corrected: `GET /o k HTTP/1.1` may be answered 404 (RFC 9112 3 allows splitting the request line at the last space); the
strict parser rejects only CR, LF, NUL in values, not every control byte. Later additions: conditional requests (`If-None-Match`) with hostile `Cache-Control` lists (several near-misses of `no-cache`) -- `Fresh()` must terminate; helpers `flashlevel` (levels 10, 13, 127: a level is one byte of the cookie) and `flashinput` (`WithInput`: the text is what the *client* sent), argument classes whose *length* bytes are CR / LF (13, 266, 269, 2570)."""
ASBUILT["C08"] = """**As built.** `spec/ErrorHandler.tla` + `MC_ErrorHandler.tla/.cfg` (`Configure`, `Raise`, `Deliver`; `ExactlyOnce`, `ChosenIsScoped`, `ChosenIsInnermost`),
`harness/c08_test.go`: forests of <= 3 mounted apps over 7 confusable prefixes, every scenario run repeatedly on apps mounted parent-first and
child-first, with the error raised by root middleware before the mounts, after them, or by a handler inside the mounted apps; two further
apps carry a prefix with capitals and one written with a trailing slash at the mount call (forests with those are limited to two apps). 387 k states, 191 k scenarios, 45-80 s. Fixed: `b918f62`. Fifth batch: error kind `wrapped418` (a framework error value a middleware annotated with `%w` is still a framework error value) and every other forest mounted through a `Group` of the parent instead of `Use` on it."""
ASBUILT["C09"] = """**As built.** `spec/Negotiation.tla` (`Pick`, `FormatOutcome`, `ZeroNeverSelects`, `AbsentSelectsFirst`), `harness/c09_test.go` (4 spellings per abstract
header; `Accepts` twice on a pooled context, `Format`). Token lists (`AcceptsCharsets/Encodings/Languages`) are enumerated as ranges with an empty subtype over three tokens that are no prefixes of
one another. Bounds are explicit constants: quick 2 ranges x 2 offers (75 k cases), thorough 3 x 2 and a wider q / parameter pool 2 x 3 (3.3 M
cases, 7 min; the first thorough configuration, 3 x 3 over the wide pool, was 87 M cases and was abandoned after 7 GB of output). False alarms corrected: `Format`'s 406 is a status, not an error; with an absent
`Accept` the default handler of `Format` is not asserted. Later additions: an offer-only token that begins with the letters of a range's token without being it (`utf-16le` / `gzip2` / `eng`: a range names one token) and empty list elements (`a,, b`). Session 4: a fifth spelling for the token headers, the long list -- sixteen non-serving ranges with interleaved qualities around and between the case's ranges (up to 19 ranges), which leaves the expected pick unchanged and exercises the ordering code beyond the lengths for which library sorts are stable."""
ASBUILT["C10"] = """**As built.** `spec/TrustProxy.tla` (`Trusted`, output functions, `NonInterference`, `SecureIffHttps`, `ValidatedIPIsAnAddress`), `harness/c10_test.go` with
`fakeConn`/`fakeTLSConn` supplying peer address and TLS state (IPv4 peers in 4-byte and 16-byte form), forwarded scheme values other than
`https` (`ftp`, upper case), and a sibling application derived from `app.Config()` created before any request (outputs must not depend on
other applications in the process). 179 k states, 178 k cases, 20 s. Fixed: `a7429d1`, `b3a2d9c`. Fifth batch: IPv6 literals with a zone suffix (`fe80::1%eth0`, `::1%<text>`) in the forwarded list: with IP validation a zone is not part of an address."""
ASBUILT["C11"] = """**As built (level: exploration).** `spec/Binding.tla`: strings are sequences of *atoms* (the harness maps `amp`, `pct41`, `eacute`, `comma`, ... to
bytes) so that the specification itself defines comma splitting; actions `SetPrior`, `SetStruct` (holder := `Enc(v)`: Del + Add per field -- a
later SetStruct overrides an earlier one), `Send(mode)` (expect := `Dec(source, holder, split)`), `Bad(kind, mode)`; invariants `RoundTrip`
(`Dec(Enc(v)) = v` whenever splitting cannot interfere) and `StatusByMode`; `Representable(source, v)` says what each source can carry (cookie:
cookie-octets; header: no surrounding blanks, no line break). Configs: `MC_Binding.cfg` (1 request, full pools: 22 strings, extreme integers,
floats, 9 string slices ...; one field varies), `MC_Binding_seq.cfg` / `_seq3.cfg` (2 / 3 requests, tiny pool, all mode and bad-kind
sequences -- the pooled context and decoders meet several requests). `harness/c11_test.go` runs each behaviour through the bundled client,
an in-memory connection and a handler binding from the same source, directly and through `Bind().Body`. Quick 10 848 behaviours / 13 040
requests, 46 s. Open finding `C11-cookie-holder-single-valued`. False alarms corrected: body codecs are not subject to comma splitting; with
splitting on, comma-carrying values are outside the statement and are executed but not compared."""
ASBUILT["C12"] = """**As built.** `spec/Flash.tla` + `MC_Flash.cfg` (clients `conforming` = net/http + cookiejar, `transparent` = byte-transparent peer, `inprocess`; an
extra unrelated cookie; hostile cookie kinds; the redirect issued by `To`, `Route`, `Route` with queries, or `Back`), `harness/c12_test.go` with raw wire requests (`wireGet`). Hostile decodes are timed and their
allocation measured; an out-of-memory death of the driver under its `ulimit -v` is converted into a violation for the hostile-cookie case
that was running (that is the property's failure mode), every other death is exit 2. Fixed: `e12d1b6`, `4477c10`, (`6cd3566` under C05). Open
findings `C12-raw-msgpack-cookie-conforming-client` and `C12-raw-msgpack-cookie-control-bytes`: the printable encoding that would repair them
cannot keep the unedited suite green (redirect tests read and write the cookie as raw MessagePack). Fifth batch: text class `pct` (percent escapes are text like any other), `Faults` (the handler that receives the messages fails after reading them; with `double` the application's error handler fails too: the response expires the cookie all the same). Almost every case hits one of the two raw-MessagePack findings, so the driver's record cap is lifted for this check, and a run whose driver reports more violations than it wrote records is inconclusive (the new cases had first hidden behind the cap)."""
ASBUILT["C13"] = """**As built.** `spec/Limiter.tla`, `MC_Limiter.tla` + cfgs (fixed / sliding / skip / skip-sliding / mutant without mutex), `Limiter_Trace.tla` (+ config
templates), `harness/c13_test.go` (`TestC13Sched`: gate-scheduler DFS, traces; `TestC13Hist`: simulated timed histories on memory and external
storage). 4.2 M states, 18 k traces/histories, ~100 s quick. Invariants that read the clock are evaluated only in states where the clock
has not just ticked past a window (first version false-alarmed on the model itself). Fixed: `d080fab`, `eaf1939`. `MemoryStore.tla` (added with the fourth batch of seeded changes) specifies the in-process store behind the middleware: a two-phase garbage collector (`GcScan` under the read lock, `GcSweep` under the write lock) that must be invisible (`GcInvisible`: what `Get` returns is changed by `Set`, `Delete` and time only; `SweepCollects`); the configuration without the sweep's re-check must fail. It is bound to the code through hook `adbaf31`: in the history replay every other request that follows a tick is served *inside* the collector's gap (479 of 32 k requests in the quick tier)."""
ASBUILT["C14"] = """**As built.** `spec/Cache.tla`, `MC_Cache.tla` + cfgs (`FetchUnderLock` TRUE = code as repaired, FALSE = original order, must fail), `Cache_Hist.tla`,
`Cache_Trace.tla`, `harness/c14_test.go`. Schedule exploration is chunked and **resumable across processes** (`exploreFrom` with a schedule
prefix) because the cache's refresher goroutines make one process slower with every execution. `NoStuck` is an invariant (a request that can
never finish) instead of TLC's deadlock check; `Tick` is enabled only while the mutex is free. After an eviction tie among equally old
entries a history is no longer compared (`amb` flag). The origin's headers are functions of its body (content type, content encoding, a custom
and a repeated custom header), so every served response is checked against the body the specification prescribes; histories are replayed with
and without `StoreResponseHeaders`. Fixed: `a67f42a`, `bd72493`, `ce6213b` (a repeated origin header was replayed with its last value only). The seeded change C14B is neutralised by `bd72493`. Later additions: `HeapPut`'s index range grows with the heap (a no-cache refresh leaves the superseded entry in the heap; the old range silently disabled the step); a third history variant runs external-storage histories in a process in which nothing starts the clock shared through gofiber/utils (`ownClock`)."""
ASBUILT["C15"] = """**As built.** `spec/Session.tla` (mode `middleware` / `store`), `harness/c15_test.go`, simulated histories replayed under the virtual clock for cookie /
header / query sources on memory and external storage with a counting `KeyGenerator`. Writes after `Destroy` in the same request (nothing of
them is kept), a second `store.Get` for a loaded session (`ReGet`: same id, stored data, absolute deadline unchanged) and a focused
configuration (`Session_Hist_life.cfg`: one client, single ticks of 2 between requests, so that a session in use meets its absolute deadline)
were added after the second round of seeded changes. Sequential only: the concurrent same-id exploration was not built. `ByIDSave(i, k, v)` (store API task: `GetByID`, `Set`, `Save`, `Release`; saving is a use -- the idle timeout runs from then, the absolute deadline stays) was added after the fourth batch of seeded changes. The thorough tier with `ByIDSave` found `fb5d6ec`: `Reset()` cleared the session's data including its absolute deadline and set none for the new session, so a session reset by a handler never expired absolutely."""
ASBUILT["C16"] = """**As built.** `spec/Csrf.tla` (+ `Csrf_Hist.cfg.tmpl`; `SessionBackend`, `Put/Drop` token semantics of the session back end), `harness/c16_test.go`.
Fixed: `7171d2e` (Referer compared as an origin). False alarm corrected: a DELETE route that sits behind the middleware is an unsafe request
like any other; the first model treated the harness's own "delete token" route as safe. The restriction that a `Referer` is only generated next to an absent / `null` Origin on https was dropped: every Origin class meets every Referer class on both schemes."""
ASBUILT["C17"] = """**As built.** `spec/Idempotency.tla`, `MemoryLock.tla`, `Idempotency_Trace.tla` + cfgs (incl. a non-excluding Locker that must violate `AtMostOnce`),
`harness/c17_test.go` (`gatedLocker` logging around the real `MemoryLock`). Requests without a key or with a safe method are the action `Bypass`
(invariant `BypassUnaffected`; in a trace any storage or lock event of such a request is not enabled); 9 scenarios. No defect found; the suspicion about `MemoryLock` deleting entries
while others wait is refuted at design level and the code's traces conform. Later additions: every execution sends one kept header whose *name* no other execution uses and the trace's `end` event carries the names seen (`only`): the answer carries exactly the one of the execution it reports; `KeepResponseHeaders` is spelled in mixed case."""
ASBUILT["C18"] = """**As built.** `ClientAssemble.tla`, `ClientCore.tla` (+ `MC_ClientCore.cfg`, `_orig.cfg` with `Compete = FALSE`, must violate `WriteOwn`), `CookieJar.tla`
(+ `Hist.cfg`, `Hist_root.cfg`), `ClientBody.tla` (setter calls `AddForm / AddFile / SetRaw / SetJSON` in program order, the "files win over form
fields" rule, what arrives per key / per file); drivers `c18asm_test.go`, `c18body_test.go`, `c18core_test.go` (uses the two verif gates of section 5),
`c18jar_test.go`. Fixed:
`def2740`, `335f592`, `fa3377b` (jar), `fbc241a` (hand-off), `fd7a868` (path parameter escaping). Open finding `C18-jar-path-direction`: the
repository's own `Test_CookieJarGet` asserts the reversed path test. Harness errors corrected: a double `resp.Close()` put one Response
into the pool twice; the identity of a pooled `*Request` is unreliable, so requests are mapped through the goroutine id at the second hook. `ClientKV.tla` (added with the fourth batch of seeded changes): every sequence of <= 3 `Add` / `Set` / plural / `Del` calls on headers, query parameters and form fields, on request and client; what arrives is per key what the calls leave behind (`SetOverrides`). It found `6d15e73` at once (`Set*` replaced only the first of several values) and the open finding `C18-set-reorders-other-values`. `ClientAssemble.tla` got the request's own context deadline (`CtxKinds`, `Cut`): a later deadline does not extend the timeout, and a request cut off long before the reply can arrive must end with an error (1.5 s endpoint, 30 ms timeout: no timing race)."""
ASBUILT["C19"] = """**As built.** `spec/Cors.tla` (`Scope` constant), `harness/c19_test.go`; all cases are served on one recycled `RequestCtx`, as on a keep-alive connection, so a header left behind by the previous
response would show. 25 k cases, 7-9 s. No defect found. Fifth batch: configuration `blank` (the origin list is set but names nothing: the constructor may refuse it; if it does not, nothing is permitted). Session 4: `Cors.tla` spells the configuration's list entries four ways (`Spellings`: as serialized, trailing slash, upper case, blanks around) with the invariant `SpellingIrrelevant`, adds the method `POST` (`OnlyOptionsIsPreflight`) and a negative max-age (header `0`); quick 132,876 states / 130,572 cases. The blanks spelling found the defect fixed by `a85c266`."""
ASBUILT["C20"] = """**As built.** `spec/EncryptCookie.tla`, `harness/c20_test.go`. 5.6 k symbolic scenarios expanded to every byte / length of real ciphertexts; the first handler may fail after setting its cookies (`outcome`), and `TestC20Conc` performs the
first step from 8 clients at once on one middleware instance. No defect
found. False alarm corrected: the binary value class is restricted to bytes a cookie value can carry. Fifth batch: value classes `huge` (4 000 bytes: the ciphertext exceeds 4 KiB) and `issued` (the text is itself a ciphertext the server issued under the current key -- still just a text)."""
