package harness

import (
	"context"
	"encoding/json"
	"fmt"
	"net"
	"os"
	"strconv"
	"strings"
	"sync"
	"testing"
	"time"

	"github.com/gofiber/fiber/v3"
	"github.com/gofiber/fiber/v3/client"
	"github.com/valyala/fasthttp/fasthttputil"
)

// C18 (client core) forward conformance: every complete behaviour of spec/ClientCore.tla (Compete = TRUE: the
// hand-off as it has to be) for two requests is replayed on the real client: the server handler of each request
// and the verif gate after the worker's compare-and-swap are the scheduling points, cancel() is the caller's
// give-up.  What each caller gets back (response of WHICH request, or the timeout error) must be what the
// specification says, and a held response must keep its content until it is closed.

type coreAct struct {
	A string `json:"a"`
	R int    `json:"r"`
}
type coreRes struct {
	Kind    string `json:"kind"`
	From    int    `json:"from"`
	Content int    `json:"content"`
}
type coreCase struct {
	Acts    []coreAct          `json:"acts"`
	ResultL []coreRes          `json:"result"`
	Result  map[string]coreRes `json:"-"`
}

func waitCh(ch chan struct{}, d time.Duration) bool {
	select {
	case <-ch:
		return true
	case <-time.After(d):
		return false
	}
}

func TestC18Core(t *testing.T) {
	if os.Getenv("VERIF_CASES") == "" {
		t.Skip("VERIF_CASES not set")
	}
	o := newOut(t)
	defer o.close()
	var mu sync.Mutex
	type reqCtl struct {
		atServer, serverGo chan struct{}
		atGate, gateGo     chan struct{}
		finished           chan struct{}
		cancel             context.CancelFunc
		resp               *client.Response
		err                error
		req                *client.Request
	}
	cur := map[int]*reqCtl{}
	caseNo := 0
	byReq := map[*client.Request]*reqCtl{}
	app := fiber.New()
	app.Get("/:r", func(c fiber.Ctx) error {
		var cn, r int
		fmt.Sscanf(c.Params("r"), "%d-%d", &cn, &r)
		mu.Lock()
		rc := cur[r]
		if cn != caseNo {
			rc = nil // a straggler of an earlier behaviour
		}
		mu.Unlock()
		if rc != nil {
			close(rc.atServer)
			<-rc.serverGo
		}
		return c.SendString("resp-" + strconv.Itoa(r))
	})
	ln := fasthttputil.NewInmemoryListener()
	go func() { _ = app.Listener(ln, fiber.ListenConfig{DisableStartupMessage: true}) }()
	workerOf := map[int64]*reqCtl{} // worker goroutine id -> request (requests are pooled objects: their identity does not last)
	client.VerifGate = func(point string, req *client.Request) {
		gid := curGoid()
		switch point {
		case "exec.workerStart":
			u := req.URL()
			var cn, r int
			fmt.Sscanf(u[strings.LastIndexByte(u, '/')+1:], "%d-%d", &cn, &r)
			mu.Lock()
			if cn == caseNo {
				workerOf[gid] = cur[r]
			}
			mu.Unlock()
		case "exec.afterCAS":
			mu.Lock()
			rc := workerOf[gid]
			delete(workerOf, gid)
			mu.Unlock()
			if rc != nil {
				close(rc.atGate)
				<-rc.gateGo
			}
		}
	}
	cl := client.New().SetDial(func(string) (net.Conn, error) { return ln.Dial() })
	var n, nStuck, nRaces int
	readCases(t, "VERIF_CASES", func(line []byte) {
		var cs coreCase
		if err := json.Unmarshal(line, &cs); err != nil {
			t.Fatalf("bad case %v", err)
		}
		n++
		cs.Result = map[string]coreRes{}
		for i, r := range cs.ResultL {
			cs.Result[strconv.Itoa(i+1)] = r
		}
		mu.Lock()
		caseNo = n
		cur = map[int]*reqCtl{}
		byReq = map[*client.Request]*reqCtl{}
		mu.Unlock()
		stuck := ""
		closed := map[int]bool{}
		raced := false
		for i, a := range cs.Acts {
			mu.Lock()
			rc := cur[a.R]
			mu.Unlock()
			switch a.A {
			case "acquire":
				rc = &reqCtl{atServer: make(chan struct{}), serverGo: make(chan struct{}), atGate: make(chan struct{}),
					gateGo: make(chan struct{}), finished: make(chan struct{})}
				ctx, cancel := context.WithCancel(context.Background())
				rc.cancel = cancel
				rc.req = cl.R().SetContext(ctx)
				mu.Lock()
				cur[a.R] = rc
				byReq[rc.req] = rc
				mu.Unlock()
				go func(rc *reqCtl, r int) {
					rc.resp, rc.err = rc.req.Get("http://core.test/" + strconv.Itoa(n) + "-" + strconv.Itoa(r))
					close(rc.finished)
				}(rc, a.R)
				if !waitCh(rc.atServer, 20*time.Second) {
					stuck = fmt.Sprintf("request %d never reached the server (step %d)", a.R, i)
				}
			case "answer":
				close(rc.serverGo)
				// the worker either wins the CAS (reaches the gate) or lost it to a cancel before (nothing to observe)
				lost := false
				for j := 0; j < i; j++ {
					if cs.Acts[j].A == "cancel" && cs.Acts[j].R == a.R {
						lost = true
					}
				}
				if !lost && !waitCh(rc.atGate, 20*time.Second) {
					stuck = fmt.Sprintf("worker %d never reached the gate after its CAS (step %d)", a.R, i)
				}
			case "deliver":
				close(rc.gateGo)
			case "recv":
				if !waitCh(rc.finished, 20*time.Second) {
					stuck = fmt.Sprintf("caller %d did not return after the delivery (step %d)", a.R, i)
				}
			case "cancel":
				rc.cancel()
				if cs.Result[strconv.Itoa(a.R)].Kind == "timeout" {
					if !waitCh(rc.finished, 20*time.Second) {
						stuck = fmt.Sprintf("caller %d did not return after cancel (step %d)", a.R, i)
					}
				} else {
					raced = true
					// the worker is committed: the caller must keep waiting for it
					if waitCh(rc.finished, 3*time.Millisecond) {
						// returned although the specification says it waits: compared below through the result
						_ = rc
					}
				}
			case "close":
				if rc.resp != nil {
					rc.resp.Close()
				}
				closed[a.R] = true
			}
			if stuck != "" {
				break
			}
		}
		if raced {
			nRaces++
		}
		// release everything that may still be parked, then collect
		mu.Lock()
		rcs := map[int]*reqCtl{}
		for r, rc := range cur {
			rcs[r] = rc
		}
		mu.Unlock()
		obs := map[string]coreRes{}
		bodies := map[int]string{}
		for r, rc := range rcs {
			select {
			case <-rc.serverGo:
			default:
				close(rc.serverGo)
			}
			select {
			case <-rc.gateGo:
			default:
				close(rc.gateGo)
			}
			if !waitCh(rc.finished, 20*time.Second) && stuck == "" {
				stuck = fmt.Sprintf("caller %d never returned", r)
			}
			res := coreRes{}
			select {
			case <-rc.finished:
				switch {
				case rc.err != nil:
					res.Kind = "timeout"
				case rc.resp != nil:
					res.Kind = "resp"
					if !closed[r] {
						body := string(rc.resp.Body())
						bodies[r] = body
						fmt.Sscanf(body, "resp-%d", &res.Content)
						res.From = res.Content
					} else {
						exp := cs.Result[strconv.Itoa(r)]
						res.From, res.Content = exp.From, exp.Content // closed: nothing left to look at
					}
				}
			default:
			}
			obs[strconv.Itoa(r)] = res
			rc.cancel()
		}
		if stuck != "" {
			nStuck++
			o.violation(map[string]any{"check": "core-handoff-stuck", "prop": "C18", "acts": cs.Acts, "what": stuck})
			return
		}
		for r, exp := range cs.Result {
			got := obs[r]
			if exp.Kind == "" {
				continue
			}
			if got.Kind != exp.Kind || (exp.Kind == "resp" && (got.From != exp.From || got.Content != exp.Content)) {
				o.violation(map[string]any{"check": "core-handoff-result-differs", "prop": "C18", "acts": cs.Acts, "request": r, "expected": exp, "observed": got, "bodies": fmt.Sprint(bodies)})
				break
			}
		}
		for r, rc := range rcs {
			if rc.resp != nil && !closed[r] { // never release an object twice: the pool would hand it to two requests
				rc.resp.Close()
			}
		}
		if n%997 == 1 {
			o.sample(map[string]any{"acts": cs.Acts, "result": cs.Result})
		}
	})
	o.summary(map[string]any{"cases": n, "stuck": nStuck, "behaviours_with_cancel_after_worker_commit": nRaces, "violations": o.nV})
}
