package harness

import (
	"bufio"
	"bytes"
	"encoding/json"
	"fmt"
	"io"
	"os"
	"path/filepath"
	"regexp"
	"runtime"
	"runtime/debug"
	"sort"
	"strings"
	"sync"
	"testing"

	"github.com/gofiber/fiber/v3"
	"github.com/tinylib/msgp/msgp"
	"github.com/valyala/fasthttp"
)

// C05: every history TLC enumerated from spec/CtxLifecycle.tla (preceding requests of 15 kinds, then a probe) is served on ONE
// goroutine with the garbage collector off, so that the pooled context of the previous request is handed to the next one; the
// probe's full observation vector must equal the vector of the same probe on a fresh application and contain no foreign marker.

type dumpViews struct{}

func (dumpViews) Load() error { return nil }
func (dumpViews) Render(w io.Writer, _ string, bind any, _ ...string) error {
	m, _ := bind.(fiber.Map)
	var ks []string
	for k, v := range m {
		ks = append(ks, fmt.Sprintf("%s=%v", k, v))
	}
	sort.Strings(ks)
	_, err := io.WriteString(w, strings.Join(ks, ","))
	return err
}

type c05Q struct {
	Name string `query:"name"`
	N    int    `query:"n"`
}

func flashCookie(marker string, n int, full bool) []byte {
	b := msgp.AppendArrayHeader(nil, uint32(n))
	for i := 0; i < n; i++ {
		if full {
			b = msgp.AppendMapHeader(b, 4)
			b = msgp.AppendString(msgp.AppendString(b, "key"), fmt.Sprintf("%sk%d", marker, i))
			b = msgp.AppendString(msgp.AppendString(b, "value"), fmt.Sprintf("%sv%d", marker, i))
			b = msgp.AppendUint8(msgp.AppendString(b, "level"), 77)
			b = msgp.AppendBool(msgp.AppendString(b, "isOldInput"), i%2 == 1)
		} else {
			b = msgp.AppendMapHeader(b, 1)
			b = msgp.AppendString(msgp.AppendString(b, "key"), fmt.Sprintf("%sk%d", marker, i))
		}
	}
	return b
}

func c05App(ptrs *[]string) fasthttp.RequestHandler {
	return c05AppRec(func(c fiber.Ctx) { *ptrs = append(*ptrs, fmt.Sprintf("%p", c)) })
}

// c05AppRec: rec is told which context object serves each request
func c05AppRec(rec func(c fiber.Ctx)) fasthttp.RequestHandler {
	app := fiber.New(fiber.Config{Views: dumpViews{}, PassLocalsToViews: true})
	mark := func(c fiber.Ctx) string { rec(c); return c.Get("X-Marker") }
	// a middleware that still works after the handler returned: the response is not written before it is done
	app.Use("/jsonp", func(c fiber.Ctx) error {
		err := c.Next()
		for i := 0; i < 3; i++ {
			runtime.Gosched()
		}
		return err
	})
	app.Get("/jsonp/:name", func(c fiber.Ctx) error { rec(c); return c.JSONP(fiber.Map{"name": c.Params("name")}) })
	// views rendered without bind data of their own: what ViewBind / Locals of THIS request provide, nothing else
	app.Get("/viewrender", func(c fiber.Ctx) error { m := mark(c); _ = c.ViewBind(fiber.Map{"vb": m}); return c.Render("t", nil) })
	app.Get("/localsrender", func(c fiber.Ctx) error { m := mark(c); c.Locals("k", m); return c.Render("t", nil) })
	app.Get("/rendernil", func(c fiber.Ctx) error { rec(c); return c.Render("t", nil) })
	app.Get("/plain", func(c fiber.Ctx) error { mark(c); return c.SendString("ok") })
	app.Get("/p/:a/:b", func(c fiber.Ctx) error { mark(c); return c.SendString(c.Params("a") + c.Params("b")) })
	app.Get("/locals", func(c fiber.Ctx) error { m := mark(c); c.Locals("k", m); return c.SendString("ok") })
	app.Get("/viewbind", func(c fiber.Ctx) error { m := mark(c); _ = c.ViewBind(fiber.Map{"vb": m}); return c.SendString("ok") })
	app.Get("/redirectwith", func(c fiber.Ctx) error { m := mark(c); return c.Redirect().With("k"+m, "v"+m, 9).To("/x") })
	app.Get("/withinput", func(c fiber.Ctx) error { mark(c); return c.Redirect().WithInput().To("/x") })
	app.Get("/flash", func(c fiber.Ctx) error { mark(c); return c.SendString(fmt.Sprint(len(c.Redirect().Messages()))) })
	app.Get("/bindquery", func(c fiber.Ctx) error { mark(c); var q c05Q; _ = c.Bind().Query(&q); return c.SendString(q.Name) })
	app.Get("/bindauto", func(c fiber.Ctx) error {
		mark(c)
		var q c05Q
		_ = c.Bind().WithAutoHandling().Query(&q)
		return c.SendString(q.Name)
	})
	app.Get("/resphdr", func(c fiber.Ctx) error {
		m := mark(c)
		c.Set("X-Resp", m)
		c.Cookie(&fiber.Cookie{Name: "rc", Value: m})
		return c.SendString("ok")
	})
	app.Get("/baseurl", func(c fiber.Ctx) error { mark(c); return c.SendString(c.BaseURL()) })
	app.Get("/error", func(c fiber.Ctx) error { mark(c); return fiber.NewError(500, "boom "+c.Get("X-Marker")) })
	probe := func(c fiber.Ctx) error {
		rec(c)
		var q c05Q
		berr := c.Bind().Query(&q)
		vec := map[string]any{"a": c.Params("a"), "b": c.Params("b"), "x": c.Params("x"), "local": fmt.Sprint(c.Locals("k")),
			"messages": c.Redirect().Messages(), "old": c.Redirect().OldInputs(), "bindName": q.Name, "bindN": q.N, "bindErr": fmt.Sprint(berr),
			"statusAfterBind": c.Response().StatusCode(), "route": c.Route().Path, "base": c.BaseURL(), "query": c.Query("name")}
		var rendered bytes.Buffer
		_ = c.App().Config().Views.Render(&rendered, "t", fiber.Map{})
		if err := c.Render("t", fiber.Map{"own": "P"}); err == nil {
			vec["view"] = string(c.Response().Body())
		}
		c.Response().ResetBody()
		c.Response().Header.Del("Content-Type")
		return c.JSON(vec)
	}
	app.Get("/probe", probe)
	app.Get("/probe/:x", probe)
	// an optional parameter and a catch-all: a request that leaves them EMPTY must see them empty
	app.Get("/opt/:o?", func(c fiber.Ctx) error { rec(c); return c.SendString("o=[" + c.Params("o") + "]") })
	app.Get("/sf-a", func(c fiber.Ctx) error { rec(c); return c.SendFile(c05File, fiber.SendFile{MaxAge: 3600}) })
	app.Get("/sf-b", func(c fiber.Ctx) error { rec(c); return c.SendFile(c05File) })
	app.Get("/*", func(c fiber.Ctx) error {
		rec(c)
		return c.SendString("rest=[" + c.Params("*") + "] a=[" + c.Params("a") + "]")
	})
	return app.Handler()
}

// serveWire parses the request from wire bytes (so that raw headers exist, as on a connection) into the REUSED RequestCtx.
func serveWire(rc *fasthttp.RequestCtx, h fasthttp.RequestHandler, raw string) {
	rc.Request.Reset()
	rc.Response.Reset()
	rc.ResetUserValues()
	if err := rc.Request.Read(bufio.NewReader(strings.NewReader(raw))); err != nil {
		rc.Response.SetStatusCode(400)
		return
	}
	func() {
		defer func() {
			if r := recover(); r != nil {
				rc.Response.Reset()
				rc.Response.SetStatusCode(599)
				rc.Response.SetBodyString(fmt.Sprint("PANIC: ", r, panicSite()))
			}
		}()
		h(rc)
	}()
}

// c05File: the file the SendFile routes serve (one path for every app of the process); it lives next to the driver's output
// file, in the check's scratch directory, which the runner removes
var c05File = func() string {
	if os.Getenv("VERIF_CASES") == "" {
		return ""
	}
	dir := ""
	if o := os.Getenv("VERIF_OUT"); o != "" {
		dir = filepath.Dir(o)
	}
	f, err := os.CreateTemp(dir, "c05-*.txt")
	if err != nil {
		panic(err)
	}
	defer f.Close()
	_, _ = f.WriteString("file content")
	return f.Name()
}()

func c05Request(kind, m string) string {
	line, hdr := "GET /plain HTTP/1.1", ""
	switch kind {
	case "params":
		line = "GET /p/" + m + "a/" + m + "b HTTP/1.1"
	case "jsonp":
		line = "GET /jsonp/" + m + " HTTP/1.1"
	case "locals", "viewbind", "redirectwith", "resphdr", "baseurl", "error", "viewrender", "localsrender":
		line = "GET /" + kind + " HTTP/1.1"
	case "withinput":
		line = "GET /withinput?in" + m + "=val" + m + " HTTP/1.1"
	case "flashfull":
		line, hdr = "GET /flash HTTP/1.1", "Cookie: fiber_flash="+string(flashCookie(m, 3, true))+"\r\n"
	case "flashpartial":
		line, hdr = "GET /flash HTTP/1.1", "Cookie: fiber_flash="+string(flashCookie(m, 3, false))+"\r\n"
	case "flashtrunc":
		fc := flashCookie(m, 3, true)
		line, hdr = "GET /flash HTTP/1.1", "Cookie: fiber_flash="+string(fc[:len(fc)-9])+"\r\n"
	case "bindquery":
		line = "GET /bindquery?name=" + m + "&n=5 HTTP/1.1"
	case "bindauto":
		line = "GET /bindauto?name=" + m + "&n=5 HTTP/1.1"
	case "notallowed":
		line = "POST /plain HTTP/1.1"
	case "sendfilemaxage":
		line = "GET /sf-a HTTP/1.1"
	case "optparam":
		line = "GET /opt/" + m + "o HTTP/1.1"
	}
	return line + "\r\nHost: " + strings.ToLower(m) + ".test\r\nX-Marker: " + m + "\r\n" + hdr + "\r\n"
}

func c05Probe(kind string) string {
	switch kind {
	case "params":
		return "GET /probe/Px HTTP/1.1\r\nHost: p.test\r\n\r\n"
	case "flashpartial":
		return "GET /probe HTTP/1.1\r\nHost: p.test\r\nCookie: fiber_flash=" + string(flashCookie("P", 2, false)) + "\r\n\r\n"
	case "flashshort":
		return "GET /probe HTTP/1.1\r\nHost: p.test\r\nCookie: fiber_flash=" + string(flashCookie("P", 1, true)) + "\r\n\r\n"
	case "bindbad":
		return "GET /probe?name=Pn&n=notanumber HTTP/1.1\r\nHost: p.test\r\n\r\n"
	case "star":
		return "GET / HTTP/1.1\r\nHost: p.test\r\n\r\n"
	case "optparam":
		return "GET /opt HTTP/1.1\r\nHost: p.test\r\n\r\n"
	case "sendfile":
		return "GET /sf-b HTTP/1.1\r\nHost: p.test\r\n\r\n"
	case "rendernil":
		return "GET /rendernil HTTP/1.1\r\nHost: p.test\r\n\r\n"
	case "jsonp":
		return "GET /jsonp/P HTTP/1.1\r\nHost: p.test\r\n\r\n"
	}
	return "GET /probe HTTP/1.1\r\nHost: p.test\r\n\r\n"
}

var c05Probes = []string{"plain", "params", "flashpartial", "flashshort", "bindbad", "star", "optparam", "sendfile", "rendernil", "jsonp"}

var foreignMarker = regexp.MustCompile(`R[0-9]`)

func c05Vector(rc *fasthttp.RequestCtx) string {
	var hs []string
	rc.Response.Header.VisitAll(func(k, v []byte) {
		if string(k) != "Date" && string(k) != "Content-Length" {
			hs = append(hs, string(k)+": "+string(v))
		}
	})
	sort.Strings(hs)
	return fmt.Sprintf("status=%d\nheaders=%s\nbody=%s", rc.Response.StatusCode(), strings.Join(hs, " | "), rc.Response.Body())
}

func TestC05(t *testing.T) {
	o := newOut(t)
	defer o.close()
	old := debug.SetGCPercent(-1) // a garbage collection empties sync.Pool: the history must stay on one pooled context
	defer debug.SetGCPercent(old)
	baseline := map[string]string{}
	for _, p := range c05Probes {
		var ptrs []string
		h := c05App(&ptrs)
		rc := &fasthttp.RequestCtx{}
		serveWire(rc, h, c05Probe(p))
		baseline[p] = c05Vector(rc)
	}
	var ptrs []string
	h := c05App(&ptrs)
	rc := &fasthttp.RequestCtx{}
	var n, nReused, nFreshApps int
	var shared fasthttp.RequestHandler
	readCases(t, "VERIF_CASES", func(line []byte) {
		var cs struct {
			Hist  []string `json:"hist"`
			Probe string   `json:"probe"`
		}
		if err := json.Unmarshal(line, &cs); err != nil {
			t.Fatalf("bad case %v", err)
		}
		n++
		ptrs = ptrs[:0]
		// State the application keeps on its own (the SendFile handler store) must start empty for a history that uses it, so that
		// what the probe sees can only come from THIS history: such histories get a fresh application.  Every SendFile handler owns a
		// file-cache goroutine and keeps the file open for its cache duration, so their number per process is capped (beyond the cap
		// the shared application is used, which is sound but sees only the first configuration of its lifetime); the shared
		// application itself is renewed every 1000 histories.
		usesSendFile := cs.Probe == "sendfile"
		for _, k := range cs.Hist {
			if k == "sendfilemaxage" {
				usesSendFile = true
			}
		}
		if usesSendFile && nFreshApps < 4000 {
			nFreshApps++
			h = c05App(&ptrs)
		} else {
			if shared == nil || n%1000 == 1 {
				shared = c05App(&ptrs)
			}
			h = shared
		}
		for i, k := range cs.Hist {
			serveWire(rc, h, c05Request(k, fmt.Sprintf("R%d", i+1)))
		}
		serveWire(rc, h, c05Probe(cs.Probe))
		got := c05Vector(rc)
		reused := len(ptrs) >= 2 && ptrs[len(ptrs)-1] == ptrs[len(ptrs)-2]
		if reused {
			nReused++
		}
		if got != baseline[cs.Probe] || foreignMarker.MatchString(got) {
			o.violation(map[string]any{"check": "probe-differs-from-fresh-app", "prop": "C05", "history": cs.Hist, "probe": cs.Probe,
				"last_preceding": func() string {
					if len(cs.Hist) > 0 {
						return cs.Hist[len(cs.Hist)-1]
					}
					return ""
				}(), "expected": baseline[cs.Probe], "observed": got, "context_reused": reused})
		}
		if n%401 == 1 {
			o.sample(map[string]any{"history": cs.Hist, "probe": cs.Probe, "observation": got})
		}
		if n%500 == 0 {
			debug.SetGCPercent(old)
			debug.FreeOSMemory()
			debug.SetGCPercent(-1)
		}
	})
	o.summary(map[string]any{"cases": n, "probe_served_by_the_context_of_the_preceding_request": nReused, "histories_on_a_fresh_application": nFreshApps, "violations": o.nV})
}

// TestC05Conc: the same histories, run by several goroutines at once against ONE app (shared context, redirect, binder and
// parameter-map pools; contexts migrate between goroutines); every probe must still observe what a fresh app shows.
func TestC05Conc(t *testing.T) {
	o := newOut(t)
	defer o.close()
	baseline := map[string]string{}
	for _, p := range c05Probes {
		var ptrs []string
		h := c05App(&ptrs)
		rc := &fasthttp.RequestCtx{}
		serveWire(rc, h, c05Probe(p))
		baseline[p] = c05Vector(rc)
	}
	type job struct {
		Hist  []string `json:"hist"`
		Probe string   `json:"probe"`
	}
	var jobs []job
	readCases(t, "VERIF_CASES", func(line []byte) {
		var cs job
		if err := json.Unmarshal(line, &cs); err != nil {
			t.Fatalf("bad case %v", err)
		}
		jobs = append(jobs, cs)
	})
	const workers = 8
	var mu sync.Mutex
	lastWorker := map[string]string{} // context object -> worker that used it last
	var nMigrated, nProbes int
	h := c05AppRec(func(c fiber.Ctx) {
		p, w := fmt.Sprintf("%p", c), c.Get("X-Worker")
		mu.Lock()
		if lw, ok := lastWorker[p]; ok && lw != w {
			nMigrated++
		}
		lastWorker[p] = w
		mu.Unlock()
	})
	rounds := 1
	if os.Getenv("VERIF_TIER") == "thorough" {
		rounds = 4
	}
	var wg sync.WaitGroup
	for w := 0; w < workers; w++ {
		wg.Add(1)
		go func(w int) {
			defer wg.Done()
			rc := &fasthttp.RequestCtx{}
			tag := fmt.Sprintf("\r\nX-Worker: %d\r\n", w)
			withWorker := func(raw string) string { return strings.Replace(raw, "\r\n", tag, 1) }
			for r := 0; r < rounds; r++ {
				for i := (w + r) % workers; i < len(jobs); i += workers {
					cs := jobs[i]
					for k, kind := range cs.Hist {
						serveWire(rc, h, withWorker(c05Request(kind, fmt.Sprintf("R%d", k+1))))
					}
					serveWire(rc, h, withWorker(c05Probe(cs.Probe)))
					got := c05Vector(rc)
					mu.Lock()
					nProbes++
					mu.Unlock()
					if got != baseline[cs.Probe] || foreignMarker.MatchString(got) {
						o.violation(map[string]any{"check": "probe-differs-from-fresh-app-concurrent", "prop": "C05", "history": cs.Hist, "probe": cs.Probe,
							"expected": baseline[cs.Probe], "observed": got, "worker": w})
					}
				}
			}
		}(w)
	}
	wg.Wait()
	o.summary(map[string]any{"cases": len(jobs), "probes": nProbes, "workers": workers, "requests_served_by_a_context_last_used_on_another_goroutine": nMigrated, "violations": o.nV})
}
