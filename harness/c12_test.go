package harness

import (
	"bufio"
	"context"
	"encoding/json"
	"errors"
	"fmt"
	"io"
	"net"
	"net/http"
	"net/http/cookiejar"
	"net/url"
	"runtime"
	"sort"
	"strings"
	"testing"
	"time"

	"github.com/gofiber/fiber/v3"
	"github.com/tinylib/msgp/msgp"
	"github.com/valyala/fasthttp"
	"github.com/valyala/fasthttp/fasthttputil"
)

// C12: the scenarios of spec/Flash.tla over a REAL HTTP exchange: a conforming client (net/http + cookiejar) and a
// transparent one (copies Set-Cookie bytes verbatim, honours expiry) follow a redirect that carries flash messages and
// old input; hostile cookie values are presented directly.

type flashMsg struct {
	Key   string `json:"key"`
	Value string `json:"value"`
	Level int    `json:"level"`
	Old   bool   `json:"old"`
}
type flashCase struct {
	Client  string       `json:"client"`
	Pending []flashMsg   `json:"pending"`
	Hostile string       `json:"hostile"`
	Seen    [][]flashMsg `json:"seen"`
	Extra   bool         `json:"extra"`
	Via     string       `json:"via"`
	Fault   string       `json:"fault"`
}

func flashText(class, role string) string {
	switch class {
	case "plain":
		return "alpha" + role
	case "special":
		return `a,b:c;d"e f=` + role
	case "unicode":
		return "héllo wörld ✓" + role
	case "empty":
		return ""
	case "pct":
		return "/s?q=caf%C3%A9&p=%41" + role // percent escapes are text like any other (short: no length byte that is a control byte)
	}
	return strings.Repeat("x", 300) + role
}

func flashKey(msgs []flashMsg, role string) string { // canonical rendering of a message set
	var s []string
	for _, m := range msgs {
		s = append(s, fmt.Sprintf("%v|%s|%s|%d", m.Old, m.Key, m.Value, m.Level))
	}
	sort.Strings(s)
	return strings.Join(s, "\n")
}

// wireGet sends a GET request as raw bytes over an in-memory connection (the flash cookie is only looked at when the
// request was parsed off the wire) and reads the response leniently.
var cookiePrefix string // other cookies the client sends before the flash cookie

func wireGet(ln *fasthttputil.InmemoryListener, path string, cookie []byte, extra string) (*fasthttp.Response, error) {
	conn, err := ln.Dial()
	if err != nil {
		return nil, err
	}
	defer conn.Close()
	var b []byte
	b = append(b, "GET "+path+" HTTP/1.1\r\nHost: flash.test\r\nConnection: close\r\n"+extra...)
	if cookie != nil {
		b = append(append(append(b, "Cookie: "+cookiePrefix+"fiber_flash="...), cookie...), "\r\n"...)
	} else if cookiePrefix != "" {
		b = append(b, "Cookie: "+strings.TrimSuffix(cookiePrefix, "; ")+"\r\n"...)
	}
	b = append(b, "\r\n"...)
	_ = conn.SetDeadline(time.Now().Add(20 * time.Second))
	if _, err := conn.Write(b); err != nil {
		return nil, err
	}
	resp := &fasthttp.Response{}
	if err := resp.Read(bufio.NewReader(conn)); err != nil {
		return nil, err
	}
	return resp, nil
}

func TestC12(t *testing.T) {
	o := newOut(t)
	defer o.close()
	var lastSeen []flashMsg // what the failing handler of a follow-up request had read (X-Fault)
	app := fiber.New(fiber.Config{ErrorHandler: func(c fiber.Ctx, err error) error {
		if c.Get("X-Fault") == "double" {
			return errors.New("the error handler failed as well")
		}
		code := fiber.StatusInternalServerError
		var fe *fiber.Error
		if errors.As(err, &fe) {
			code = fe.Code
		}
		return c.Status(code).SendString(err.Error())
	}})
	app.Get("/start", func(c fiber.Ctx) error {
		var msgs []flashMsg
		_ = json.Unmarshal([]byte(c.Get("X-Msgs")), &msgs)
		r := c.Redirect()
		hasOld := false
		for _, m := range msgs {
			if m.Old {
				hasOld = true
			} else {
				r = r.With(m.Key, m.Value, uint8(m.Level))
			}
		}
		if hasOld {
			r = r.WithInput() // the old input is the query string of this request
		}
		switch c.Get("X-Via") {
		case "route":
			return r.Route("next")
		case "routequery":
			return r.Route("next", fiber.RedirectConfig{Queries: map[string]string{"from": "start"}})
		case "back":
			return r.Back("/next") // no Referer: the fallback is used
		}
		return r.To("/next")
	})
	app.Get("/next", func(c fiber.Ctx) error {
		var out []flashMsg
		for _, m := range c.Redirect().Messages() {
			out = append(out, flashMsg{Key: m.Key, Value: m.Value, Level: int(m.Level)})
		}
		for _, m := range c.Redirect().OldInputs() {
			out = append(out, flashMsg{Key: m.Key, Value: m.Value, Old: true})
		}
		if c.Get("X-Fault") != "" {
			lastSeen = out
			return fiber.NewError(fiber.StatusBadGateway, "failed after reading the messages")
		}
		return c.JSON(out)
	}).Name("next")
	ln := fasthttputil.NewInmemoryListener()
	go func() { _ = app.Listener(ln, fiber.ListenConfig{DisableStartupMessage: true}) }()
	hInproc := app.Handler()
	var n, nDelivered, nHostile int
	readCases(t, "VERIF_CASES", func(line []byte) {
		var cs flashCase
		if err := json.Unmarshal(line, &cs); err != nil {
			t.Fatalf("bad case %v", err)
		}
		n++
		cookiePrefix = ""
		if cs.Extra {
			cookiePrefix = "session=abc123; "
		}
		conc := func(ms []flashMsg) []flashMsg {
			r := make([]flashMsg, len(ms))
			for i, m := range ms {
				role := "-m"
				if m.Old {
					role = "-o"
				}
				r[i] = flashMsg{Key: flashText(m.Key, role+"k"), Value: flashText(m.Value, ""), Level: m.Level, Old: m.Old}
				if m.Value != "empty" {
					r[i].Value = flashText(m.Value, role+"v")
				}
			}
			return r
		}
		fail := func(what string, exp, got any) {
			// does the issued cookie value (read from the response object) contain a byte that cannot stand in a cookie value
			// even for a byte-transparent peer: a control byte, space, double quote, comma, semicolon or backslash?
			lowLevel := false
			if cs.Hostile == "none" {
				pend := conc(cs.Pending)
				qq := url.Values{}
				for _, m := range pend {
					if m.Old {
						qq.Set(m.Key, m.Value)
					}
				}
				hh, _ := json.Marshal(pend)
				rc := doReqH(hInproc, "GET", "/start?"+qq.Encode(), "X-Msgs", string(hh))
				for _, ln := range peekAll(rc, "Set-Cookie") {
					if i := strings.Index(ln, "fiber_flash="); i >= 0 {
						v := ln[i+len("fiber_flash="):]
						if j := strings.LastIndex(v, "; path=/"); j >= 0 {
							v = v[:j]
						}
						for k := 0; k < len(v); k++ {
							if b := v[k]; b < 0x21 || b == 0x7f || b == '"' || b == ',' || b == ';' || b == '\\' {
								lowLevel = true
							}
						}
					}
				}
			}
			o.violation(map[string]any{"check": "flash-" + what, "prop": "C12", "client": cs.Client, "pending": cs.Pending, "hostile": cs.Hostile, "other_cookie_first": cs.Extra, "fault": cs.Fault, "via": cs.Via,
				"non_cookie_octet_in_cookie": fmt.Sprint(lowLevel), "expected": exp, "observed": got})
		}
		if cs.Hostile != "none" {
			nHostile++
			// hostile cookie values, presented directly
			var good []byte
			good = msgp.AppendArrayHeader(good, 2)
			for i := 0; i < 2; i++ {
				good = msgp.AppendMapHeader(good, 4)
				good = msgp.AppendString(msgp.AppendString(good, "key"), fmt.Sprintf("k%d", i))
				good = msgp.AppendString(msgp.AppendString(good, "value"), "secret-of-another-request")
				good = msgp.AppendUint8(msgp.AppendString(good, "level"), 7)
				good = msgp.AppendBool(msgp.AppendString(good, "isOldInput"), false)
			}
			var values [][]byte
			switch cs.Hostile {
			case "nocookie":
				values = [][]byte{nil}
			case "empty":
				values = [][]byte{{}}
			case "truncated":
				for i := 1; i < len(good); i++ {
					values = append(values, good[:i])
				}
			case "announce32":
				values = [][]byte{{0xdd, 0xff, 0xff, 0xff, 0xff}, {0xdd, 0x7f, 0xff, 0xff, 0xff}, {0xdd, 0x00, 0xff, 0xff, 0xff}}
			case "announce16":
				values = [][]byte{{0xdc, 0xff, 0xff}, {0xdc, 0xff, 0xff, 0x80}}
			case "wrongtypes":
				w := msgp.AppendArrayHeader(nil, 1)
				w = msgp.AppendMapHeader(w, 2)
				w = msgp.AppendString(msgp.AppendString(w, "key"), "k")
				w = msgp.AppendString(msgp.AppendString(w, "level"), "not-a-number")
				values = [][]byte{w, msgp.AppendString(nil, "a string, not an array"), msgp.AppendMapHeader(nil, 1)}
			case "notmsgpack":
				values = [][]byte{[]byte("hello"), []byte("\xc1\xc1\xc1"), []byte(strings.Repeat("\x91", 2000))}
			default:
				return // kinds whose outcome the statement leaves open (trailing bytes, partial maps) are not asserted here
			}
			for _, v := range values {
				// a request that leaves something behind in the pooled context first
				_, _ = wireGet(ln, "/next", good, "")
				var ms1, ms2 runtime.MemStats
				runtime.ReadMemStats(&ms1)
				t0 := time.Now()
				resp, err := wireGet(ln, "/next", v, "")
				el := time.Since(t0)
				runtime.ReadMemStats(&ms2)
				if err != nil {
					fail("hostile-cookie-breaks-connection", "a response", err.Error())
					return
				}
				var got []flashMsg
				_ = json.Unmarshal(resp.Body(), &got)
				alloc := ms2.TotalAlloc - ms1.TotalAlloc
				switch {
				case resp.StatusCode() != 200 && resp.StatusCode() != 400: // a 400 for bytes that are not header material is a fine answer too
					fail("hostile-cookie-breaks-request", "200 or 400", fmt.Sprint(resp.StatusCode(), string(resp.Body())[:min(80, len(resp.Body()))]))
				case len(got) != 0:
					fail("malformed-cookie-yields-messages", []flashMsg{}, map[string]any{"cookie_hex": fmt.Sprintf("%x", v), "messages": got})
				case alloc > 1<<20+64*uint64(len(v)) || el > 10*time.Second:
					fail("decode-cost-not-proportional", "<= 1MiB + 64 x len", map[string]any{"cookie_hex": fmt.Sprintf("%x", v), "alloc_bytes": alloc, "seconds": el.Seconds()})
				default:
					continue
				}
				return
			}
			return
		}
		pending := conc(cs.Pending)
		q := url.Values{}
		for _, m := range pending {
			if m.Old {
				q.Set(m.Key, m.Value)
			}
		}
		hdr, _ := json.Marshal(pending)
		var seen [][]flashMsg
		var note string
		if cs.Client == "conforming" {
			jar, _ := cookiejar.New(nil)
			if cs.Extra {
				u, _ := url.Parse("http://flash.test/")
				jar.SetCookies(u, []*http.Cookie{{Name: "session", Value: "abc123", Path: "/"}})
			}
			cl := &http.Client{Jar: jar, Transport: &http.Transport{DialContext: func(context.Context, string, string) (net.Conn, error) { return ln.Dial() }, DisableKeepAlives: true},
				CheckRedirect: func(*http.Request, []*http.Request) error { return http.ErrUseLastResponse }}
			req, _ := http.NewRequest("GET", "http://flash.test/start?"+q.Encode(), nil)
			req.Header.Set("X-Msgs", string(hdr))
			req.Header.Set("X-Via", cs.Via)
			resp, err := cl.Do(req)
			if err != nil {
				note = "the conforming client refuses the redirect response: " + err.Error()
			} else {
				resp.Body.Close()
			}
			for i := 0; i < 2; i++ {
				resp, err := cl.Get("http://flash.test/next")
				var got []flashMsg
				if err == nil {
					b, _ := io.ReadAll(resp.Body)
					resp.Body.Close()
					_ = json.Unmarshal(b, &got)
				}
				seen = append(seen, got)
			}
		} else {
			var cookie []byte
			if cs.Client == "inprocess" {
				// the redirect response never touches a wire: the cookie bytes are read from the response object
				rc := doReqH(hInproc, "GET", "/start?"+q.Encode(), "X-Msgs", string(hdr), "X-Via", cs.Via)
				var ck fasthttp.Cookie
				ck.SetKey("fiber_flash")
				if rc.Response.Header.Cookie(&ck) {
					cookie = append([]byte{}, ck.Value()...)
				}
			} else {
				resp, err := wireGet(ln, "/start?"+q.Encode(), nil, "X-Msgs: "+string(hdr)+"\r\nX-Via: "+cs.Via+"\r\n")
				if err != nil {
					note = "redirect request failed: " + err.Error()
				} else {
					var ck fasthttp.Cookie
					ck.SetKey("fiber_flash")
					if resp.Header.Cookie(&ck) {
						cookie = append([]byte{}, ck.Value()...)
					}
				}
			}
			for i := 0; i < 2; i++ {
				xf := ""
				if i == 0 && cs.Fault != "" && cs.Fault != "none" {
					xf = "X-Fault: " + cs.Fault + "\r\n"
					lastSeen = nil
				}
				resp2, err := wireGet(ln, "/next", cookie, xf)
				var got []flashMsg
				if err != nil {
					note += " follow-up failed: " + err.Error()
				} else if xf != "" {
					// the handler failed after reading: what it had read, and the (error) response must still expire the cookie
					got = lastSeen
					var ck2 fasthttp.Cookie
					ck2.SetKey("fiber_flash")
					if resp2.Header.Cookie(&ck2) && (len(ck2.Value()) == 0 || (!ck2.Expire().IsZero() && ck2.Expire().Before(time.Now()))) {
						cookie = nil
					}
				} else {
					_ = json.Unmarshal(resp2.Body(), &got)
					if resp2.StatusCode() != 200 {
						note += fmt.Sprint(" follow-up status ", resp2.StatusCode())
					}
					var ck2 fasthttp.Cookie
					ck2.SetKey("fiber_flash")
					if resp2.Header.Cookie(&ck2) && (len(ck2.Value()) == 0 || (!ck2.Expire().IsZero() && ck2.Expire().Before(time.Now()))) {
						cookie = nil // the server expired it
					}
				}
				seen = append(seen, got)
			}
		}
		if flashKey(seen[0], "") == flashKey(pending, "") {
			nDelivered++
		}
		switch {
		case flashKey(seen[0], "") != flashKey(pending, ""):
			fail("not-delivered-intact", pending, map[string]any{"first_follow_up": seen[0], "note": note})
		case len(seen[1]) != 0:
			fail("delivered-more-than-once", []flashMsg{}, map[string]any{"second_follow_up": seen[1]})
		}
		if n%499 == 1 {
			o.sample(map[string]any{"client": cs.Client, "pending": pending, "seen": seen})
		}
	})
	o.summary(map[string]any{"cases": n, "delivered_intact": nDelivered, "hostile_kinds": nHostile, "violations": o.nV})
}
