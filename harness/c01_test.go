package harness

import (
	"encoding/json"
	"fmt"
	"os"
	"runtime/debug"
	"sort"
	"strings"
	"testing"

	"github.com/gofiber/fiber/v3"
	"github.com/valyala/fasthttp"
)

// C01: (1) measure the INDIVIDUAL match relation of a pattern pool on the real router (one app
// holding only that route) -- the statement's own definition of "individually matches";
// (2) replay the dispatch scenarios TLC generated from spec/Router.tla with that relation.

type vCustomCtx struct {
	fiber.DefaultCtx
}

func routerApp(cfg pmCfg, ctxKind string) *fiber.App {
	app := fiber.New(fiber.Config{CaseSensitive: cfg.Cs, StrictRouting: cfg.Strict, UnescapePath: cfg.Unesc})
	if ctxKind == "custom" {
		app.NewCtxFunc(func(a *fiber.App) fiber.CustomCtx {
			return &vCustomCtx{DefaultCtx: *fiber.NewDefaultCtx(a)}
		})
	}
	return app
}

type c01MeasureIn struct {
	Pats  []string `json:"pats"`
	Paths []string `json:"paths"`
	Cfg   pmCfg    `json:"cfg"`
	Ctx   string   `json:"ctx"`
}

func doReq(h fasthttp.RequestHandler, method, path string) *fasthttp.RequestCtx {
	rc := &fasthttp.RequestCtx{}
	rc.Request.Header.SetMethod(method)
	rc.Request.SetRequestURI(path)
	h(rc)
	return rc
}

// panicSite: the innermost frames of the code under test at a recovered panic (" @ file:line < file:line ...")
func panicSite() string {
	var sites []string
	for _, l := range strings.Split(string(debug.Stack()), "\n") {
		l = strings.TrimSpace(l)
		if strings.HasPrefix(l, "/repo/") || strings.Contains(l, "/fasthttp@") {
			if i := strings.IndexByte(l, ' '); i > 0 {
				l = l[:i]
			}
			sites = append(sites, strings.TrimPrefix(l, "/repo/"))
			if len(sites) == 5 {
				break
			}
		}
	}
	return " @ " + strings.Join(sites, " < ")
}

func doReqH(h fasthttp.RequestHandler, method, path string, kv ...string) *fasthttp.RequestCtx {
	rc := &fasthttp.RequestCtx{}
	rc.Request.Header.SetMethod(method)
	rc.Request.SetRequestURI(path)
	for i := 0; i+1 < len(kv); i += 2 {
		rc.Request.Header.Set(kv[i], kv[i+1])
	}
	func() {
		// a panic of the code under test is an observation (status 599), not a dead driver
		defer func() {
			if r := recover(); r != nil {
				rc.Response.Reset()
				rc.Response.SetStatusCode(599)
				rc.Response.SetBodyString(fmt.Sprint("PANIC: ", r, panicSite()))
			}
		}()
		h(rc)
	}()
	return rc
}

// doReqReuse serves a request on a RequestCtx that is reused, as a keep-alive connection worker reuses it
// (request / response buffers are recycled, not reallocated).
func doReqReuse(rc *fasthttp.RequestCtx, h fasthttp.RequestHandler, method, path string, kv ...string) {
	rc.Request.Reset()
	rc.Response.Reset()
	rc.ResetUserValues() // as the server does between two requests of a connection
	rc.Request.Header.SetMethod(method)
	rc.Request.SetRequestURI(path)
	for i := 0; i+1 < len(kv); i += 2 {
		rc.Request.Header.Set(kv[i], kv[i+1])
	}
	func() {
		defer func() {
			if r := recover(); r != nil {
				rc.Response.Reset()
				rc.Response.SetStatusCode(599)
				rc.Response.SetBodyString(fmt.Sprint("PANIC: ", r, panicSite()))
			}
		}()
		h(rc)
	}()
}

func TestC01Measure(t *testing.T) {
	var in c01MeasureIn
	b, err := os.ReadFile(os.Getenv("VERIF_IN"))
	if err != nil {
		t.Skip("VERIF_IN not set")
	}
	if err := json.Unmarshal(b, &in); err != nil {
		t.Fatal(err)
	}
	o := newOut(t)
	var triples [][3]string
	for _, pat := range in.Pats {
		for _, kind := range []string{"use", "ep"} {
			ran := false
			app := routerApp(in.Cfg, in.Ctx)
			h := func(c fiber.Ctx) error { ran = true; return c.SendStatus(200) }
			if kind == "use" {
				app.Use(pat, h)
			} else {
				app.Get(pat, h)
			}
			hh := app.Handler()
			for _, p := range in.Paths {
				ran = false
				doReq(hh, "GET", p)
				if ran {
					triples = append(triples, [3]string{pat, kind, p})
				}
			}
		}
	}
	o.summary(map[string]any{"triples": triples})
}

type c01Beh struct {
	T  string `json:"t"`
	To string `json:"to"`
}
type c01Route struct {
	Kind string `json:"kind"`
	Pat  string `json:"pat"`
	Beh  c01Beh `json:"beh"`
	Via  string `json:"via"`
}

// c01Split: a pattern as group prefix + rest ("/abc/d" = Group("/abc") + "/d"; one segment or less: Group("/") + pattern)
func c01Split(pat string) (string, string) {
	if i := strings.IndexByte(pat[1:], '/'); i >= 0 && i+2 < len(pat) {
		return pat[:i+1], pat[i+1:]
	}
	return "/", pat
}

type c01Case struct {
	Table  []c01Route `json:"table"`
	Req    []string   `json:"req"`
	Ran    []int      `json:"ran"`
	Status int        `json:"status"`
	Allow  []string   `json:"allow"`
}

type c01Obs struct {
	Ran    []int    `json:"ran"`
	Status int      `json:"status"`
	Allow  []string `json:"allow"`
	Panic  bool     `json:"panic,omitempty"`
}

func parseAllow(v string) []string {
	var r []string
	for _, p := range strings.Split(v, ",") {
		p = strings.TrimSpace(p)
		if p != "" {
			r = append(r, p)
		}
	}
	sort.Strings(r)
	return r
}

func eqInts(a, b []int) bool {
	if len(a) != len(b) {
		return false
	}
	for i := range a {
		if a[i] != b[i] {
			return false
		}
	}
	return true
}

func eqStrs(a, b []string) bool {
	if len(a) != len(b) {
		return false
	}
	for i := range a {
		if a[i] != b[i] {
			return false
		}
	}
	return true
}

func TestC01(t *testing.T) {
	var cfg pmCfg
	_ = json.Unmarshal([]byte(os.Getenv("VERIF_CFG")), &cfg)
	ctxKind := os.Getenv("VERIF_CTX")
	o := newOut(t)
	defer o.close()
	var n, nRewritten, nMulti, n405, n404, nVia int
	nRan := 0
	readCases(t, "VERIF_CASES", func(line []byte) {
		var cs c01Case
		if err := json.Unmarshal(line, &cs); err != nil {
			t.Fatalf("bad case %v: %s", err, line)
		}
		n++
		app := routerApp(cfg, ctxKind)
		var ran []int
		for i, r := range cs.Table {
			id, beh := i+1, r.Beh
			h := func(c fiber.Ctx) error {
				ran = append(ran, id)
				if len(ran) > 4*len(cs.Table)+4 {
					return c.SendStatus(508) // runaway chain: stop calling Next, the sequence comparison reports it
				}
				switch beh.T {
				case "stop":
					return c.SendStatus(200)
				case "next":
					return c.Next()
				case "rw":
					c.Path(beh.To)
					return c.Next()
				case "ov":
					c.Method(beh.To)
					return c.Next()
				}
				return nil
			}
			head, tail := c01Split(r.Pat)
			switch {
			case r.Kind == "use" && r.Via == "list":
				app.Use([]string{r.Pat}, h)
			case r.Kind == "use" && r.Via == "group":
				app.Group(head).Use(tail, h)
			case r.Kind == "use" && r.Via == "grouplist":
				app.Group(head).Use([]string{tail}, h)
			case r.Kind == "use":
				app.Use(r.Pat, h)
			case r.Via == "group":
				app.Group(head).Add(strings.Split(r.Kind, "+"), tail, h)
			default:
				app.Add(strings.Split(r.Kind, "+"), r.Pat, h)
			}
			if r.Via != "" && r.Via != "app" {
				nVia++
			}
		}
		obs := c01Obs{}
		func() {
			defer func() {
				if rec := recover(); rec != nil {
					obs.Panic = true
				}
			}()
			rc := doReq(app.Handler(), cs.Req[0], cs.Req[1])
			obs.Status = rc.Response.StatusCode()
			obs.Allow = parseAllow(string(rc.Response.Header.Peek("Allow")))
		}()
		obs.Ran = ran
		if obs.Ran == nil {
			obs.Ran = []int{}
		}
		if obs.Allow == nil {
			obs.Allow = []string{}
		}
		exp := append([]string{}, cs.Allow...)
		sort.Strings(exp)
		if cs.Ran == nil {
			cs.Ran = []int{}
		}
		changed := false
		for _, i := range cs.Ran {
			if tt := cs.Table[i-1].Beh.T; tt == "rw" || tt == "ov" {
				changed = true
			}
		}
		if changed {
			nRewritten++
		}
		if len(cs.Ran) > 1 {
			nMulti++
		}
		if cs.Status == 405 {
			n405++
		} else if cs.Status == 404 {
			n404++
		}
		if len(cs.Ran) > 0 {
			nRan++
		}
		bad := ""
		switch {
		case obs.Panic:
			bad = "panic"
		case !eqInts(obs.Ran, cs.Ran):
			bad = "handler-sequence-differs"
		case obs.Status != cs.Status:
			bad = "status-differs"
		case !eqStrs(obs.Allow, exp):
			bad = "allow-differs"
		}
		if bad != "" {
			kinds := make([]string, len(cs.Table))
			for i, r := range cs.Table {
				kinds[i] = r.Kind + " " + r.Pat + " " + r.Beh.T + r.Beh.To + " via " + r.Via
			}
			o.violation(map[string]any{"check": bad, "prop": "C01", "table": cs.Table, "routes": strings.Join(kinds, " ; "),
				"req": strings.Join(cs.Req, " "), "cfg": cfg, "ctx": ctxKind,
				"expected": c01Obs{Ran: cs.Ran, Status: cs.Status, Allow: exp}, "observed": obs, "after_change": changed})
		}
		if n%20011 == 1 {
			o.sample(map[string]any{"table": cs.Table, "req": cs.Req, "expected_ran": cs.Ran, "observed": obs, "cfg": cfg, "ctx": ctxKind})
		}
	})
	o.summary(map[string]any{"cases": n, "with_rewrite_or_override": nRewritten, "multi_handler": nMulti, "n405": n405, "n404": n404,
		"distinct_ran": nRan, "registrations_through_group_or_list": nVia, "violations": o.nV})
}
