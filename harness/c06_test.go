package harness

import (
	"encoding/json"
	"fmt"
	"net"
	"os"
	"path/filepath"
	"sort"
	"strings"
	"testing"
	"unsafe"

	"github.com/gofiber/fiber/v3"
	"github.com/valyala/fasthttp"
)

// C06: for every scenario of spec/Immutable.tla (option on/off, request shape, history of later requests that recycle the
// context and the connection buffers) a handler takes every accessor's value WITHOUT copying it; under Immutable each value
// must still read as it did after the later requests were served on the same RequestCtx.

type c06Bind struct {
	Name string `query:"name" form:"name" header:"X-Name" cookie:"bname" uri:"p" json:"name"`
}

type c06Cap struct {
	alias string // the value as handed out (may alias request buffers)
	clone string // what it read at capture time
	atEnd string // what the handed-out value read just before the handler returned (after it had gone on working)
}

// c06File: the file the capturing handler sends (in the check's scratch directory)
var c06File = func() string {
	if os.Getenv("VERIF_CASES") == "" {
		return ""
	}
	dir := ""
	if o := os.Getenv("VERIF_OUT"); o != "" {
		dir = filepath.Dir(o)
	}
	f, err := os.CreateTemp(dir, "c06-*.txt")
	if err != nil {
		panic(err)
	}
	defer f.Close()
	_, _ = f.WriteString("file content")
	return f.Name()
}()

func aliasBytes(b []byte) string {
	if len(b) == 0 {
		return ""
	}
	return unsafe.String(&b[0], len(b))
}

func c06App(immutable, trust bool, caps map[string]*c06Cap) fasthttp.RequestHandler {
	put := func(k, v string) { caps[k] = &c06Cap{alias: v, clone: strings.Clone(v)} }
	tpc := fiber.TrustProxyConfig{}
	proxyHeader := ""
	if trust {
		// the peer is a trusted proxy: scheme, host and address come from the forwarding headers
		tpc.Proxies = []string{"203.0.113.9"}
		proxyHeader = fiber.HeaderXForwardedFor
	}
	app := fiber.New(fiber.Config{Immutable: immutable, TrustProxy: trust, TrustProxyConfig: tpc, ProxyHeader: proxyHeader, ErrorHandler: func(c fiber.Ctx, err error) error {
		// a request that matches no route ends here: the error handler is a handler like any other, what it takes from the
		// context -- also the path reported by Route() -- is the request's
		if strings.HasPrefix(c.Path(), "/nomatch/") {
			put("routepath", c.Route().Path)
			put("path", c.Path())
			put("originalurl", c.OriginalURL())
			put("method", c.Method())
			put("header", c.Get("X-H"))
			put("query", c.Query("q"))
			for _, cp := range caps {
				cp.atEnd = strings.Clone(cp.alias)
			}
		}
		return c.Status(fiber.StatusNotFound).SendString("not found")
	}})
	h := func(c fiber.Ctx) error {
		put("params", c.Params("p"))
		put("path", c.Path())
		put("originalurl", c.OriginalURL())
		put("protocol", c.Protocol())
		put("query", c.Query("q"))
		put("queries", c.Queries()["q"])
		put("formvalue", c.FormValue("f"))
		put("header", c.Get("X-H"))
		if hs := c.GetReqHeaders()["X-H"]; len(hs) > 0 {
			put("reqheaders", hs[0])
		}
		put("cookies", c.Cookies("ck"))
		put("host", c.Host())
		put("hostname", c.Hostname())
		put("body", aliasBytes(c.Body()))
		put("bodyraw", aliasBytes(c.BodyRaw()))
		put("ip", c.IP())
		put("baseurl", c.BaseURL())
		if sd := c.Subdomains(); len(sd) > 0 {
			put("subdomains", sd[0])
		}
		put("method", c.Method())
		put("scheme", c.Scheme())
		if ips := c.IPs(); len(ips) > 0 {
			put("ips", ips[0])
		}
		put("genericquery", fiber.Query[string](c, "q"))
		put("genericquerybytes", aliasBytes(fiber.Query[[]byte](c, "q")))
		put("genericparams", fiber.Params[string](c, "p"))
		var bq, bf, bh, bc, bu, bj c06Bind
		if c.Bind().Query(&bq) == nil {
			put("bindquery", bq.Name)
		}
		if c.Bind().Form(&bf) == nil {
			put("bindform", bf.Name)
		}
		if c.Bind().Header(&bh) == nil {
			put("bindheader", bh.Name)
		}
		if c.Bind().Cookie(&bc) == nil {
			put("bindcookie", bc.Name)
		}
		if c.Bind().URI(&bu) == nil {
			put("binduri", bu.Name)
		}
		if c.Bind().JSON(&bj) == nil {
			put("bindjson", bj.Name)
		}
		if r, err := c.Range(1000); err == nil {
			put("rangetype", r.Type)
		}
		// the handler goes on working: helpers that take, fill and give back pooled scratch buffers
		c.Links("http://example.com/page/2?x="+strings.Repeat("L", 40), "next", "http://example.com/page/9", "last")
		_ = c.String()
		c.Attachment(strings.Repeat("A", 30) + ".txt")
		_, _ = c.GetRouteURL("capname", fiber.Map{"p": strings.Repeat("R", 30)})
		// SendFile points the request at the file for a moment: what was taken before is still the request's
		_ = c.SendFile(c06File)
		c.Response().Reset()
		c.Response().Header.Del("Content-Disposition")
		c.Response().Header.Del("Link")
		for _, cp := range caps {
			cp.atEnd = strings.Clone(cp.alias)
		}
		return c.SendString("captured")
	}
	app.All("/cap/:p", h).Name("capname")
	app.All("/other/:z/more", func(c fiber.Ctx) error { return c.SendString(c.Params("z") + c.Query("q")) })
	return app.Handler()
}

func c06Request(shape, tag string, pad int) (raw string, expect map[string]string) {
	v := func(s string) string { return s + tag + strings.Repeat("x", pad) }
	sub := strings.ToLower(v("sub")) // hosts are case-insensitive and arrive lower-cased
	hdrs := "Host: " + sub + ".example.com\r\nX-H: " + v("hval") + "\r\nX-Name: " + v("hname") + "\r\nRange: " + v("unit") + "=0-5\r\nCookie: ck=" + v("cval") + "; bname=" + v("cname") + "\r\n"
	path := "/cap/" + v("pval")
	url := path + "?q=" + v("qval") + "&name=" + v("qname")
	expect = map[string]string{"params": v("pval"), "path": path, "originalurl": url, "protocol": "HTTP/1.1", "query": v("qval"), "queries": v("qval"),
		"header": v("hval"), "reqheaders": v("hval"), "cookies": v("cval"), "host": sub + ".example.com", "hostname": sub + ".example.com",
		"ip": "203.0.113.9", "baseurl": "http://" + sub + ".example.com", "subdomains": sub, "genericquery": v("qval"), "genericquerybytes": v("qval"), "genericparams": v("pval"),
		"bindquery": v("qname"), "bindheader": v("hname"), "bindcookie": v("cname"), "binduri": v("pval"), "rangetype": v("unit")}
	expect["scheme"] = "http"
	if strings.HasPrefix(shape, "forwarded") {
		// behind a trusted proxy; "forwardedlist": every forwarding header carries a list, the first element counts
		sch, fsub, more := strings.ToLower(v("sch")), strings.ToLower(v("fsub")), [3]string{}
		if shape == "forwardedlist" {
			more = [3]string{", http", ", second.example.net", ", 198.51.100.8"}
			delete(expect, "ip") // without address validation the whole header value is the address
		} else {
			expect["ip"] = "198.51.100.7"
		}
		// in front of the other headers: fasthttp moves the Cookie header's slot to the end when cookies are first read, which shifts
		// every later header into a slot of another size (the next request then reallocates instead of overwriting in place)
		hdrs = "X-Forwarded-Proto: " + sch + more[0] + "\r\nX-Forwarded-Host: " + fsub + ".fwd.example.net" + more[1] + "\r\nX-Forwarded-For: 198.51.100.7" + more[2] + "\r\n" + hdrs
		expect["scheme"], expect["host"], expect["hostname"], expect["baseurl"], expect["subdomains"], expect["ips"] =
			sch, fsub+".fwd.example.net", fsub+".fwd.example.net", sch+"://"+fsub+".fwd.example.net", fsub, "198.51.100.7"
	}
	switch shape {
	case "unmatched":
		path = "/nomatch/" + v("pval")
		url = path + "?q=" + v("qval")
		raw = "GET " + url + " HTTP/1.1\r\n" + hdrs + "\r\n"
		expect = map[string]string{"routepath": path, "path": path, "originalurl": url, "method": "GET", "header": v("hval"), "query": v("qval")}
	case "form":
		body := "f=" + v("fval") + "&name=" + v("fname")
		raw = "POST " + url + " HTTP/1.1\r\n" + hdrs + "Content-Type: application/x-www-form-urlencoded\r\nContent-Length: " + fmt.Sprint(len(body)) + "\r\n\r\n" + body
		expect["method"], expect["formvalue"], expect["bindform"], expect["body"], expect["bodyraw"] = "POST", v("fval"), v("fname"), body, body
	case "identity", "unknownenc":
		// a body with a Content-Encoding the server does not decode
		body := "f=" + v("fval") + "&name=" + v("fname")
		enc := map[string]string{"identity": "identity", "unknownenc": "aws-chunked"}[shape]
		raw = "POST " + url + " HTTP/1.1\r\n" + hdrs + "Content-Type: application/x-www-form-urlencoded\r\nContent-Encoding: " + enc + "\r\nContent-Length: " + fmt.Sprint(len(body)) + "\r\n\r\n" + body
		expect["method"], expect["formvalue"], expect["bindform"], expect["body"], expect["bodyraw"] = "POST", v("fval"), v("fname"), body, body
	case "json":
		body := `{"name":"` + v("jname") + `"}`
		raw = "POST " + url + " HTTP/1.1\r\n" + hdrs + "Content-Type: application/json\r\nContent-Length: " + fmt.Sprint(len(body)) + "\r\n\r\n" + body
		expect["method"], expect["bindjson"], expect["body"], expect["bodyraw"] = "POST", v("jname"), body, body
	default:
		raw = "GET " + url + " HTTP/1.1\r\n" + hdrs + "\r\n"
		expect["method"] = "GET"
	}
	return raw, expect
}

func TestC06(t *testing.T) {
	o := newOut(t)
	defer o.close()
	var n, nReuse int
	accs := map[string]int{}
	readCases(t, "VERIF_CASES", func(line []byte) {
		var cs struct {
			Immutable bool     `json:"immutable"`
			Shape     string   `json:"shape"`
			Reuses    []string `json:"reuses"`
		}
		if err := json.Unmarshal(line, &cs); err != nil {
			t.Fatalf("bad case %v", err)
		}
		n++
		caps := map[string]*c06Cap{}
		h := c06App(cs.Immutable, strings.HasPrefix(cs.Shape, "forwarded"), caps)
		rc := &fasthttp.RequestCtx{}
		rc.Init2(fakeConn{&net.TCPAddr{IP: net.ParseIP("203.0.113.9"), Port: 4000}}, nil, false)
		// a connection that has been in use: its buffers have grown (a long target was served on it before)
		serveWire(rc, h, "GET /other/"+strings.Repeat("w", 300)+"/more?q="+strings.Repeat("W", 300)+" HTTP/1.1\r\nHost: warm.example.org\r\nX-H: "+strings.Repeat("W", 300)+"\r\n\r\n")
		for k2 := range caps {
			delete(caps, k2)
		}
		raw, expect := c06Request(cs.Shape, "C", 0)
		serveWire(rc, h, raw)
		var wrongAtCapture []string
		for k, e := range expect {
			if c, ok := caps[k]; !ok || c.clone != e {
				got := "<not captured>"
				if ok {
					got = c.clone
				}
				wrongAtCapture = append(wrongAtCapture, fmt.Sprintf("%s: expected %q got %q", k, e, got))
			}
		}
		sort.Strings(wrongAtCapture)
		if len(wrongAtCapture) > 0 {
			o.violation(map[string]any{"check": "value-wrong-inside-handler", "prop": "C06", "immutable": cs.Immutable, "shape": cs.Shape, "accessor": strings.SplitN(wrongAtCapture[0], ":", 2)[0], "wrong": wrongAtCapture})
			return
		}
		// with or without the option: what the handler took must still read the same when it returns
		var unstable []string
		for k, c := range caps {
			if c.atEnd != c.clone {
				unstable = append(unstable, fmt.Sprintf("%s: took %q, reads %q before returning", k, c.clone, c.atEnd))
			}
		}
		sort.Strings(unstable)
		if len(unstable) > 0 {
			o.violation(map[string]any{"check": "value-changed-inside-handler", "prop": "C06", "immutable": cs.Immutable, "shape": cs.Shape, "accessor": strings.SplitN(unstable[0], ":", 2)[0], "changed": unstable})
			return
		}
		captured := map[string]*c06Cap{}
		for k, v := range caps {
			captured[k] = v
		}
		for i, k := range cs.Reuses {
			nReuse++
			tag := fmt.Sprintf("Z%d", i)
			var raw2 string
			switch k {
			case "same":
				raw2, _ = c06Request(cs.Shape, "D", 0)
			case "shorter":
				raw2 = "GET /cap/s?q=1 HTTP/1.1\r\nHost: a.b.c\r\nX-H: h\r\nRange: zz=0-1\r\nCookie: ck=c\r\n\r\n"
			case "longer":
				raw2, _ = c06Request("form", tag, 40)
			case "otherroute":
				raw2 = "GET /other/" + strings.Repeat("o", 20) + "/more?q=" + strings.Repeat("Q", 30) + " HTTP/1.1\r\nHost: zzzzzzzz.example.org\r\nX-H: " + strings.Repeat("H", 25) + "\r\nRange: " + strings.Repeat("w", 12) + "=0-1\r\n\r\n"
			case "malformed":
				raw2 = "GE T /" + strings.Repeat("m", 60) + "\r\n\r\n"
			}
			for k2 := range caps {
				delete(caps, k2)
			}
			serveWire(rc, h, raw2)
		}
		if !cs.Immutable {
			return // without the option nothing is promised after the handler returned
		}
		var changed []string
		for k, c := range captured {
			accs[k]++
			if c.alias != c.clone {
				changed = append(changed, fmt.Sprintf("%s: was %q, now %q", k, c.clone, c.alias))
			}
		}
		sort.Strings(changed)
		if len(changed) > 0 {
			var names []string
			for _, c := range changed {
				names = append(names, strings.SplitN(c, ":", 2)[0])
			}
			o.violation(map[string]any{"check": "value-changed-after-handler-returned", "prop": "C06", "immutable": true, "shape": cs.Shape, "reuses": cs.Reuses,
				"accessor": strings.Join(names, ","), "changed": changed})
		}
		if n%37 == 1 {
			o.sample(map[string]any{"immutable": cs.Immutable, "shape": cs.Shape, "reuses": cs.Reuses, "accessors_captured": len(captured)})
		}
	})
	o.summary(map[string]any{"cases": n, "reuse_requests": nReuse, "accessor_checks_under_immutable": accs, "violations": o.nV})
}
