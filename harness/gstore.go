package harness

import (
	"errors"
	"sync"
	"time"

	"github.com/gofiber/utils/v2"
	"github.com/tinylib/msgp/msgp"
)

// gatedStorage is an injected fiber.Storage whose operations are gates of the scheduler: the operation
// takes effect under the storage's own lock, is logged, and only then the caller is parked -- what the
// schedule varies is when the CALLER continues with what it got.  TTLs follow utils.Timestamp() so that
// the storage and the middleware read the same (virtual) clock.
type gatedStorage struct {
	s      *sched
	mu     sync.Mutex
	data   map[string]gsEntry
	t0     uint32
	decode func(key string, raw []byte) event // adds decoded fields of a value to an event
	fault  func(op, key string) error         // optional fault injection
	clock  func() uint32                      // nil: utils.Timestamp()
}

type gsEntry struct {
	val []byte
	dl  uint32 // absolute second; 0 = never
}

func newGatedStorage(s *sched, decode func(string, []byte) event) *gatedStorage {
	return &gatedStorage{s: s, data: map[string]gsEntry{}, t0: utils.Timestamp(), decode: decode}
}

func (g *gatedStorage) now() uint32 {
	if g.clock != nil {
		return g.clock()
	}
	return utils.Timestamp()
}

func (g *gatedStorage) live(key string) ([]byte, bool) {
	e, ok := g.data[key]
	if !ok || (e.dl != 0 && e.dl <= g.now()) {
		return nil, false
	}
	return e.val, true
}

func (g *gatedStorage) ev(name, key string, raw []byte) event {
	e := event{}
	if g.decode != nil {
		for k, v := range g.decode(key, raw) {
			e[k] = v
		}
	}
	e["ev"], e["key"], e["t"] = name, key, int(g.now()-g.t0)
	return e
}

var errInjected = errors.New("injected storage fault")

func (g *gatedStorage) Get(key string) ([]byte, error) {
	if g.fault != nil {
		if err := g.fault("get", key); err != nil {
			g.s.gate("get", event{"ev": "getfail", "key": key})
			return nil, err
		}
	}
	g.mu.Lock()
	v, ok := g.live(key)
	var cp []byte
	if ok {
		cp = append([]byte{}, v...)
	}
	g.mu.Unlock()
	g.s.gate("get", g.ev("get", key, cp))
	return cp, nil
}

func (g *gatedStorage) Set(key string, val []byte, exp time.Duration) error {
	if g.fault != nil {
		if err := g.fault("set", key); err != nil {
			g.s.gate("set", event{"ev": "setfail", "key": key})
			return err
		}
	}
	g.mu.Lock()
	var dl uint32
	if exp > 0 {
		dl = g.now() + uint32(exp.Seconds())
	}
	g.data[key] = gsEntry{val: append([]byte{}, val...), dl: dl}
	g.mu.Unlock()
	e := g.ev("set", key, val)
	e["ttl"] = int(exp.Seconds())
	g.s.gate("set", e)
	return nil
}

func (g *gatedStorage) Delete(key string) error {
	if g.fault != nil {
		if err := g.fault("del", key); err != nil {
			g.s.gate("del", event{"ev": "delfail", "key": key})
			return err
		}
	}
	g.mu.Lock()
	delete(g.data, key)
	g.mu.Unlock()
	g.s.gate("del", event{"ev": "del", "key": key, "t": int(g.now() - g.t0)})
	return nil
}

func (g *gatedStorage) Reset() error {
	g.mu.Lock()
	g.data = map[string]gsEntry{}
	g.mu.Unlock()
	return nil
}

func (g *gatedStorage) Close() error { return nil }

// keys returns the live keys (for accounting checks).
func (g *gatedStorage) keys() []string {
	g.mu.Lock()
	defer g.mu.Unlock()
	var r []string
	for k := range g.data {
		if _, ok := g.live(k); ok {
			r = append(r, k)
		}
	}
	return r
}

// msgpMap decodes a MessagePack map value generically.
func msgpMap(raw []byte) map[string]any {
	if len(raw) == 0 {
		return nil
	}
	v, _, err := msgp.ReadIntfBytes(raw)
	if err != nil {
		return nil
	}
	m, _ := v.(map[string]any)
	return m
}

func toInt(v any) int {
	switch x := v.(type) {
	case int64:
		return int(x)
	case uint64:
		return int(x)
	case int:
		return x
	case int8:
		return int(x)
	case int16:
		return int(x)
	case int32:
		return int(x)
	case uint8:
		return int(x)
	case uint16:
		return int(x)
	case uint32:
		return int(x)
	case float64:
		return int(x)
	}
	return 0
}
