package harness

import (
	"encoding/json"
	"fmt"
	"os"
	"strings"
	"testing"
	"testing/synctest"
	"time"

	"github.com/gofiber/fiber/v3"
	"github.com/gofiber/fiber/v3/middleware/csrf"
	"github.com/gofiber/fiber/v3/middleware/session"
	"github.com/gofiber/utils/v2"
	"github.com/valyala/fasthttp"
)

// C16 forward conformance: request histories simulated by TLC from spec/Csrf.tla (token issue / use / reuse / swap /
// forge / delete / expiry, origin and referer classes, http/https, storage faults) replayed under the virtual clock.

type csrfEv struct {
	Op        string `json:"op"`
	Cookie    int    `json:"cookie"`
	Presented int    `json:"presented"`
	Origin    string `json:"origin"`
	HTTPS     bool   `json:"https"`
	Referer   string `json:"referer"`
	Pass      bool   `json:"pass"`
	Issued    int    `json:"issued"`
	D         int    `json:"d"`
}

type csrfConf struct {
	Extractor string `json:"extractor"` // header | query | form | cookie
	SingleUse bool   `json:"single"`
	Backend   string `json:"backend"` // memory | external | session
}

func TestC16(t *testing.T) {
	if os.Getenv("VERIF_CASES") == "" {
		t.Skip("VERIF_CASES not set")
	}
	var cf csrfConf
	_ = json.Unmarshal([]byte(os.Getenv("VERIF_CONF")), &cf)
	var hists [][]csrfEv
	readCases(t, "VERIF_CASES", func(line []byte) {
		var h struct {
			Hist []csrfEv `json:"hist"`
		}
		if err := json.Unmarshal(line, &h); err != nil {
			t.Fatalf("bad history: %v", err)
		}
		hists = append(hists, h.Hist)
	})
	synctest.Test(t, func(t *testing.T) {
		utils.StartTimeStampUpdater()
		time.Sleep(500 * time.Millisecond)
		o := newOut(t)
		var gen []string
		prefix := ""
		cfg := csrf.Config{IdleTimeout: 5 * time.Second, SingleUseToken: cf.SingleUse,
			TrustedOrigins: []string{"https://trusted.example", "https://*.sub.example"},
			KeyGenerator: func() string {
				id := fmt.Sprintf("%stok%d", prefix, len(gen)+1)
				gen = append(gen, id)
				return id
			}}
		switch cf.Extractor {
		case "query":
			cfg.Extractor = csrf.FromQuery("_csrf")
		case "form":
			cfg.Extractor = csrf.FromForm("_csrf")
		case "cookie":
			cfg.Extractor = csrf.FromCookie("csrf_")
		}
		down := false
		var ext *gatedStorage
		var sessStore *session.Store
		switch cf.Backend {
		case "external":
			ext = newGatedStorage(newSched(), nil)
			ext.fault = func(string, string) error {
				if down {
					return errInjected
				}
				return nil
			}
			cfg.Storage = ext
		case "session":
			sessStore = session.NewStore(session.Config{IdleTimeout: time.Hour})
			cfg.Session = sessStore
		}
		ran := false
		app := fiber.New()
		app.Use(csrf.New(cfg))
		app.Get("/logout", func(c fiber.Ctx) error { return csrf.HandlerFromContext(c).DeleteToken(c) })
		app.All("/", func(c fiber.Ctx) error { ran = true; return c.SendStatus(200) })
		h := app.Handler()
		var nUnsafe, nPass, nForgedOrSwapped, nBadOrigin int
		for hi, hist := range hists {
			prefix = fmt.Sprintf("h%d-", hi)
			gen = gen[:0]
			down = false
			sessCookie := ""
			tok := func(n int) string {
				switch {
				case n == 0:
					return ""
				case n < 0:
					return prefix + "forged"
				case n <= len(gen):
					return gen[n-1]
				}
				return fmt.Sprintf("%sunissued%d", prefix, n)
			}
			hasFault := false
			for _, e := range hist {
				if e.Op == "storedown" {
					hasFault = true
				}
			}
			if hasFault && cf.Backend != "external" {
				continue // faults can only be injected into the external storage
			}
			for step, e := range hist {
				fail := func(what string, exp, got any) {
					o.violation(map[string]any{"check": "csrf-" + what, "prop": "C16", "conf": cf, "history": hist[:step+1], "step": step, "expected": exp, "observed": got, "issued": append([]string{}, gen...)})
				}
				switch e.Op {
				case "tick":
					time.Sleep(time.Duration(e.D) * time.Second)
					continue
				case "storedown":
					down = true
					continue
				case "storeup":
					down = false
					continue
				}
				scheme := "http"
				if e.HTTPS {
					scheme = "https"
				}
				var fctx fasthttp.RequestCtx
				if e.HTTPS {
					fctx.Init2(fakeTLSConn{fakeConn{nil}}, nil, false)
				}
				cookieTok, presented := tok(e.Cookie), tok(e.Presented)
				if cf.Extractor == "cookie" && e.Op == "unsafe" {
					cookieTok = presented // the cookie IS the presented token
				}
				var cookies []string
				if cookieTok != "" {
					cookies = append(cookies, "csrf_="+cookieTok)
				}
				if sessCookie != "" {
					cookies = append(cookies, "session_id="+sessCookie)
				}
				if len(cookies) > 0 {
					fctx.Request.Header.Set("Cookie", strings.Join(cookies, "; "))
				}
				fctx.Request.Header.SetHost("example.com")
				uri := "/"
				switch e.Op {
				case "safe":
					fctx.Request.Header.SetMethod("GET")
				case "delete":
					fctx.Request.Header.SetMethod("GET")
					uri = "/logout"
				case "unsafe":
					nUnsafe++
					fctx.Request.Header.SetMethod("POST")
					if presented != "" {
						switch cf.Extractor {
						case "header":
							fctx.Request.Header.Set("X-Csrf-Token", presented)
						case "query":
							uri = "/?_csrf=" + presented
						case "form":
							fctx.Request.Header.SetContentType("application/x-www-form-urlencoded")
							fctx.Request.SetBodyString("_csrf=" + presented)
						}
					}
					origin := map[string]string{"same": scheme + "://example.com", "other": scheme + "://evil.test", "trusted": "https://trusted.example",
						"trustedsub": "https://a.sub.example", "lookalike": "https://evilsub.example", "otherport": scheme + "://example.com:8443",
						"otherscheme": map[bool]string{true: "http", false: "https"}[e.HTTPS] + "://example.com", "malformed": "http://%zz", "null": "null"}[e.Origin]
					if origin != "" {
						fctx.Request.Header.Set("Origin", origin)
					}
					ref := map[string]string{"same": scheme + "://example.com/page?x=1", "trusted": "https://trusted.example", "trustedpath": "https://trusted.example/form",
						"other": "https://evil.test/x", "lookalike": "https://trusted.example.evil.test/"}[e.Referer]
					if ref != "" {
						fctx.Request.Header.Set("Referer", ref)
					}
					if e.Cookie != e.Presented {
						nForgedOrSwapped++
					}
					if e.Origin != "same" && e.Origin != "absent" {
						nBadOrigin++
					}
				}
				fctx.Request.SetRequestURI(uri)
				ran = false
				func() {
					defer func() {
						if r := recover(); r != nil {
							fctx.Response.SetStatusCode(599)
						}
					}()
					h(&fctx)
				}()
				// carry the session cookie like a browser
				var sc fasthttp.Cookie
				sc.SetKey("session_id")
				if fctx.Response.Header.Cookie(&sc) && len(sc.Value()) > 0 {
					sessCookie = string(sc.Value())
				}
				var ck fasthttp.Cookie
				ck.SetKey("csrf_")
				back := ""
				if fctx.Response.Header.Cookie(&ck) && (ck.Expire().IsZero() || ck.Expire().After(time.Now())) {
					back = string(ck.Value())
				}
				switch e.Op {
				case "delete":
					continue
				case "safe":
					if !ran || fctx.Response.StatusCode() != 200 {
						fail("safe-method-rejected", 200, fctx.Response.StatusCode())
					} else if back != tok(e.Issued) && !down {
						fail("safe-method-cookie", tok(e.Issued), back)
					} else {
						continue
					}
				case "unsafe":
					if e.Pass {
						nPass++
					}
					if ran != e.Pass {
						fail(map[bool]string{true: "valid-request-rejected", false: "handler-reached-without-valid-token-or-origin"}[e.Pass],
							map[string]any{"handler": e.Pass}, map[string]any{"handler": ran, "status": fctx.Response.StatusCode()})
					} else if e.Pass && back != tok(e.Issued) {
						fail("token-cookie-after-pass", tok(e.Issued), back)
					} else if !e.Pass && fctx.Response.StatusCode() != 403 {
						fail("rejection-status", 403, fctx.Response.StatusCode())
					} else {
						continue
					}
				}
				break
			}
			if hi%211 == 0 {
				o.sample(map[string]any{"conf": cf, "history": hist})
			}
		}
		o.summary(map[string]any{"histories": len(hists), "unsafe_requests": nUnsafe, "passing": nPass, "swapped_or_forged": nForgedOrSwapped, "foreign_origin": nBadOrigin, "violations": o.nV})
		os.Exit(0)
	})
}
