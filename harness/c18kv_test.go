package harness

import (
	"encoding/json"
	"net"
	"os"
	"reflect"
	"sort"
	"strings"
	"testing"
	"time"

	"github.com/gofiber/fiber/v3"
	"github.com/gofiber/fiber/v3/client"
	"github.com/valyala/fasthttp/fasthttputil"
)

// C18 (multi-valued holders): every call sequence TLC enumerated from spec/ClientKV.tla is made on a real client / request
// (headers, query parameters, form fields), the request is sent over an in-memory connection, and the values a fiber server
// finds per key are compared with what the specification says the calls leave behind.

type kvCall struct {
	Op string   `json:"op"`
	K  string   `json:"k"`
	Vs []string `json:"vs"`
}

func TestC18KV(t *testing.T) {
	if os.Getenv("VERIF_CASES") == "" {
		t.Skip("VERIF_CASES not set")
	}
	o := newOut(t)
	defer o.close()
	names := map[string]string{"k1": "X-K1", "k2": "X-K2"}
	app := fiber.New()
	app.Post("/kv", func(c fiber.Ctx) error {
		seen := map[string]map[string][]string{"header": {}, "param": {}, "form": {}}
		for k, hn := range names {
			for _, v := range c.Request().Header.PeekAll(hn) {
				seen["header"][k] = append(seen["header"][k], string(v))
			}
			for _, v := range c.Request().URI().QueryArgs().PeekMulti(k) {
				seen["param"][k] = append(seen["param"][k], string(v))
			}
			for _, v := range c.Request().PostArgs().PeekMulti(k) {
				seen["form"][k] = append(seen["form"][k], string(v))
			}
		}
		return c.JSON(seen)
	})
	ln := fasthttputil.NewInmemoryListener()
	go func() { _ = app.Listener(ln, fiber.ListenConfig{DisableStartupMessage: true}) }()
	var n, nOverride int
	readCases(t, "VERIF_CASES", func(line []byte) {
		var cs struct {
			Holder  string              `json:"holder"`
			Calls   []kvCall            `json:"calls"`
			Arrives map[string][]string `json:"arrives"`
		}
		if err := json.Unmarshal(line, &cs); err != nil {
			t.Fatalf("bad case %v", err)
		}
		n++
		val := func(v string) string { return "v" + v }
		vals := func(vs []string) []string {
			r := make([]string, len(vs))
			for i, v := range vs {
				r[i] = val(v)
			}
			return r
		}
		cl := client.New().SetDial(func(string) (net.Conn, error) { return ln.Dial() }).SetTimeout(20 * time.Second)
		rq := cl.R()
		overridden := false
		seenKey := map[string]bool{}
		for _, c := range cs.Calls {
			if (c.Op == "set" || c.Op == "setmany" || c.Op == "del") && seenKey[c.K] {
				overridden = true
			}
			seenKey[c.K] = true
			hn := names[c.K]
			switch cs.Holder + "/" + c.Op {
			case "reqheader/add":
				rq.AddHeader(hn, val(c.Vs[0]))
			case "reqheader/set":
				rq.SetHeader(hn, val(c.Vs[0]))
			case "reqheader/addmany":
				rq.AddHeaders(map[string][]string{hn: vals(c.Vs)})
			case "reqheader/setmany":
				rq.SetHeaders(map[string]string{hn: val(c.Vs[0])})
			case "clientheader/add":
				cl.AddHeader(hn, val(c.Vs[0]))
			case "clientheader/set":
				cl.SetHeader(hn, val(c.Vs[0]))
			case "clientheader/addmany":
				cl.AddHeaders(map[string][]string{hn: vals(c.Vs)})
			case "clientheader/setmany":
				cl.SetHeaders(map[string]string{hn: val(c.Vs[0])})
			case "reqparam/add":
				rq.AddParam(c.K, val(c.Vs[0]))
			case "reqparam/set":
				rq.SetParam(c.K, val(c.Vs[0]))
			case "reqparam/addmany":
				rq.AddParams(map[string][]string{c.K: vals(c.Vs)})
			case "reqparam/setmany":
				rq.SetParams(map[string]string{c.K: val(c.Vs[0])})
			case "reqparam/del":
				rq.DelParams(c.K)
			case "clientparam/add":
				cl.AddParam(c.K, val(c.Vs[0]))
			case "clientparam/set":
				cl.SetParam(c.K, val(c.Vs[0]))
			case "clientparam/addmany":
				cl.AddParams(map[string][]string{c.K: vals(c.Vs)})
			case "clientparam/setmany":
				cl.SetParams(map[string]string{c.K: val(c.Vs[0])})
			case "clientparam/del":
				cl.DelParams(c.K)
			case "reqform/add":
				rq.AddFormData(c.K, val(c.Vs[0]))
			case "reqform/set":
				rq.SetFormData(c.K, val(c.Vs[0]))
			case "reqform/addmany":
				rq.AddFormDataWithMap(map[string][]string{c.K: vals(c.Vs)})
			case "reqform/setmany":
				rq.SetFormDataWithMap(map[string]string{c.K: val(c.Vs[0])})
			case "reqform/del":
				rq.DelFormData(c.K)
			default:
				t.Fatalf("unknown call %s/%s", cs.Holder, c.Op)
			}
		}
		if overridden {
			nOverride++
		}
		exp := map[string][]string{}
		for k, vs := range cs.Arrives {
			if len(vs) > 0 {
				exp[k] = vals(vs)
			}
		}
		part := map[string]string{"reqheader": "header", "clientheader": "header", "reqparam": "param", "clientparam": "param", "reqform": "form"}[cs.Holder]
		resp, err := rq.Post("http://kv.test/kv")
		if err != nil {
			o.violation(map[string]any{"check": "kv-request-failed", "prop": "C18", "holder": cs.Holder, "calls": cs.Calls, "error": err.Error()})
			return
		}
		var seen map[string]map[string][]string
		uerr := json.Unmarshal(resp.Body(), &seen)
		resp.Close()
		if uerr != nil {
			o.violation(map[string]any{"check": "kv-request-failed", "prop": "C18", "holder": cs.Holder, "calls": cs.Calls, "error": uerr.Error()})
			return
		}
		got := map[string][]string{}
		for k, vs := range seen[part] {
			if len(vs) > 0 {
				got[k] = vs
			}
		}
		if !reflect.DeepEqual(got, exp) {
			// the same values per key in another order, or other values
			diff := "order-of-values"
			if len(got) != len(exp) {
				diff = "values"
			}
			for k, vs := range exp {
				a, b := append([]string{}, vs...), append([]string{}, got[k]...)
				sort.Strings(a)
				sort.Strings(b)
				if !reflect.DeepEqual(a, b) {
					diff = "values"
				}
			}
			ops := ""
			for _, c := range cs.Calls {
				ops += c.Op + " "
			}
			o.violation(map[string]any{"check": "kv-arrives-differently", "prop": "C18", "holder": cs.Holder, "calls": cs.Calls, "ops": strings.TrimSpace(ops), "difference": diff,
				"expected": exp, "observed": got})
		}
		if n%5003 == 1 {
			o.sample(map[string]any{"holder": cs.Holder, "calls": cs.Calls, "arrives": got})
		}
	})
	o.summary(map[string]any{"cases": n, "with_an_overriding_call": nOverride, "violations": o.nV})
}
