package harness

import (
	"encoding/json"
	"fmt"
	"os"
	"strings"
	"testing"
	"testing/synctest"
	"time"

	"github.com/gofiber/fiber/v3"
	"github.com/gofiber/fiber/v3/middleware/session"
	"github.com/gofiber/utils/v2"
	"github.com/valyala/fasthttp"
)

// C15 forward conformance: histories simulated by TLC from spec/Session.tla (requests made of session operations,
// store API calls, clock ticks; presented ids: none, any id ever issued, forged) replayed under the virtual clock
// through the real middleware and store for {cookie, header, query} sources x {memory, external} storages.

type sessEv struct {
	Op    string `json:"op"`
	A     int    `json:"a"`
	K     string `json:"k"`
	V     string `json:"v"`
	ID    int    `json:"id"`
	Fresh bool   `json:"fresh"`
	D1    string `json:"d1"`
	D2    string `json:"d2"`
	N     int    `json:"n"`
}

type sessObs struct {
	ID    string `json:"id"`
	Fresh bool   `json:"fresh"`
	D1    string `json:"d1"`
	D2    string `json:"d2"`
}

func sget(m *session.Middleware, k string) string {
	if v, ok := m.Get(k).(string); ok {
		return v
	}
	return ""
}

func TestC15(t *testing.T) {
	if os.Getenv("VERIF_CASES") == "" {
		t.Skip("VERIF_CASES not set")
	}
	abs := 9
	if os.Getenv("VERIF_ABS") != "" {
		fmt.Sscan(os.Getenv("VERIF_ABS"), &abs)
	}
	var hists [][]sessEv
	var modes []string
	readCases(t, "VERIF_CASES", func(line []byte) {
		var h struct {
			Hist []sessEv `json:"hist"`
			Mode string   `json:"mode"`
		}
		if err := json.Unmarshal(line, &h); err != nil {
			t.Fatalf("bad history: %v", err)
		}
		hists = append(hists, h.Hist)
		modes = append(modes, h.Mode)
	})
	synctest.Test(t, func(t *testing.T) {
		utils.StartTimeStampUpdater()
		time.Sleep(500 * time.Millisecond)
		o := newOut(t)
		var nReq, nLoaded, nForged, nStale int
		type variant struct{ source, storage string }
		variants := []variant{{"cookie", "memory"}, {"header", "memory"}, {"query", "external"}, {"cookie", "external"}}
		for vi, va := range variants {
			// one store per variant; the counting generator makes ids distinguishable per history
			var gen []string
			prefix := ""
			cfg := session.Config{IdleTimeout: 5 * time.Second, AbsoluteTimeout: time.Duration(abs) * time.Second,
				KeyLookup: va.source + ":session_id",
				KeyGenerator: func() string {
					id := fmt.Sprintf("%s%d", prefix, len(gen)+1)
					gen = append(gen, id)
					return id
				}}
			if va.storage == "external" {
				cfg.Storage = newGatedStorage(newSched(), nil)
			}
			handler, store := session.NewWithStore(cfg)
			var obs []sessObs
			var ops []sessEv
			// store mode: no middleware, the handler drives Store.Get / Session.Save itself
			appS := fiber.New()
			appS.Get("/", func(c fiber.Ctx) error {
				sess, err := store.Get(c)
				if err != nil {
					return err
				}
				defer func() { sess.Release() }()
				g := func(k string) string {
					if v, ok := sess.Get(k).(string); ok {
						return v
					}
					return ""
				}
				obs = append(obs, sessObs{ID: sess.ID(), Fresh: sess.Fresh(), D1: g("k1"), D2: g("k2")})
				for _, e := range ops {
					var err error
					switch e.Op {
					case "set":
						sess.Set(e.K, e.V)
					case "del":
						sess.Delete(e.K)
					case "destroy":
						err = sess.Destroy()
					case "regenerate":
						err = sess.Regenerate()
					case "reset":
						err = sess.Reset()
					case "save":
						err = sess.Save()
					case "reget": // ask the store for the request's session again and go on with that object
						sess.Release()
						if sess, err = store.Get(c); err != nil {
							return err
						}
					}
					if err != nil {
						return err
					}
					if e.Op == "regenerate" || e.Op == "reset" {
						obs = append(obs, sessObs{ID: sess.ID(), Fresh: sess.Fresh(), D1: g("k1"), D2: g("k2")})
					}
				}
				return c.SendStatus(200)
			})
			hS := appS.Handler()
			app := fiber.New()
			app.Use(handler)
			app.Get("/", func(c fiber.Ctx) error {
				m := session.FromContext(c)
				obs = append(obs, sessObs{ID: m.ID(), Fresh: m.Fresh(), D1: sget(m, "k1"), D2: sget(m, "k2")})
				for _, e := range ops {
					switch e.Op {
					case "set":
						m.Set(e.K, e.V)
					case "del":
						m.Delete(e.K)
					case "destroy":
						if err := m.Destroy(); err != nil {
							return err
						}
					case "regenerate":
						if err := m.Session.Regenerate(); err != nil {
							return err
						}
					case "reset":
						if err := m.Reset(); err != nil {
							return err
						}
					case "save":
						if err := m.Session.Save(); err != nil { // a no-op behind the middleware
							return err
						}
					}
					if e.Op == "regenerate" || e.Op == "reset" {
						obs = append(obs, sessObs{ID: m.ID(), Fresh: m.Fresh(), D1: sget(m, "k1"), D2: sget(m, "k2")})
					}
				}
				return c.SendStatus(200)
			})
			hM := app.Handler()
			reused := &fasthttp.RequestCtx{} // one connection worker: request buffers are recycled between requests
			for hi, hist := range hists {
				h := hM
				if modes[hi] == "store" {
					h = hS
				}
				prefix = fmt.Sprintf("v%dh%d-", vi, hi)
				gen = gen[:0]
				realID := func(n int) string { // the real id of the spec's n-th issued id
					if n >= 1 && n <= len(gen) {
						return gen[n-1]
					}
					return fmt.Sprintf("%sunissued-%d", prefix, n)
				}
				hi := hi
				fail := func(step int, what string, exp, got any) {
					o.violation(map[string]any{"check": "session-" + what, "prop": "C15", "source": va.source, "storage": va.storage, "abs": abs,
						"mode": modes[hi], "history": hist[:step+1], "step": step, "expected": exp, "observed": got, "issued": append([]string{}, gen...)})
				}
				broken := false
				for i := 0; i < len(hist) && !broken; i++ {
					e := hist[i]
					switch e.Op {
					case "tick":
						time.Sleep(time.Duration(e.N) * time.Second)
					case "getbyid":
						s, err := store.GetByID(realID(e.A))
						got := sessObs{}
						if err == nil {
							got.ID = s.ID()
							if v, ok := s.Get("k1").(string); ok {
								got.D1 = v
							}
							if v, ok := s.Get("k2").(string); ok {
								got.D2 = v
							}
							s.Release()
						}
						exp := sessObs{D1: e.D1, D2: e.D2}
						if e.ID != 0 {
							exp.ID = realID(e.ID)
						}
						if got != exp {
							fail(i, "GetByID", exp, got)
							broken = true
						}
					case "byidsave":
						s, err := store.GetByID(realID(e.A))
						got := sessObs{}
						if err == nil {
							s.Set(e.K, e.V)
							if serr := s.Save(); serr != nil {
								fail(i, "GetByID-Set-Save", "saved", serr.Error())
								broken = true
							}
							got.ID = s.ID()
							if v, ok := s.Get("k1").(string); ok {
								got.D1 = v
							}
							if v, ok := s.Get("k2").(string); ok {
								got.D2 = v
							}
							s.Release()
						}
						exp := sessObs{D1: e.D1, D2: e.D2}
						if e.ID != 0 {
							exp.ID = realID(e.ID)
						}
						if got != exp {
							fail(i, "GetByID-Set-Save", exp, got)
							broken = true
						}
					case "storedelete":
						_ = store.Delete(realID(e.A))
					case "begin":
						// the whole request: begin .. end
						j := i + 1
						for j < len(hist) && hist[j].Op != "end" {
							j++
						}
						if j >= len(hist) {
							i = len(hist) // the simulated behaviour ended inside this request
							break
						}
						ops = hist[i+1 : j]
						obs = obs[:0]
						nReq++
						presented := ""
						switch {
						case e.A > 0:
							presented = realID(e.A)
							if e.Fresh {
								nStale++
							} else {
								nLoaded++
							}
						case e.A < 0:
							presented = prefix + "forged"
							nForged++
						}
						rc := reused
						switch {
						case presented == "":
							doReqReuse(rc, h, "GET", "/")
						case va.source == "cookie":
							doReqReuse(rc, h, "GET", "/", "Cookie", "session_id="+presented)
						case va.source == "header":
							doReqReuse(rc, h, "GET", "/", "session_id", presented)
						default:
							doReqReuse(rc, h, "GET", "/?session_id="+presented)
						}
						if rc.Response.StatusCode() != 200 {
							fail(j, "request-failed", 200, fmt.Sprint(rc.Response.StatusCode(), " ", string(rc.Response.Body())))
							broken = true
							break
						}
						// expectations: at begin, after every regenerate/reset
						expObs := []sessObs{{ID: realID(e.ID), Fresh: e.Fresh, D1: e.D1, D2: e.D2}}
						for _, op := range ops {
							if op.Op == "regenerate" || op.Op == "reset" {
								expObs = append(expObs, sessObs{ID: realID(op.ID), Fresh: op.Fresh})
							}
						}
						for k := range expObs {
							if k >= len(obs) {
								fail(j, "handler-did-not-finish", expObs, obs)
								broken = true
								break
							}
							g := obs[k]
							if k > 0 { // after a rotation only id and freshness are compared here; the data is checked by the next load
								g.D1, g.D2 = "", ""
							}
							if g != expObs[k] {
								what := "begin-sees-other-session"
								if k > 0 {
									what = "rotation-gives-other-id"
								} else if e.A != 0 && e.Fresh && g.ID == presented {
									what = "client-chosen-or-dead-id-adopted"
								}
								fail(j, what, expObs[k], obs[k])
								broken = true
								break
							}
						}
						if broken {
							break
						}
						// the id handed back to the client
						end := hist[j]
						back := ""
						if va.source == "header" {
							back = string(rc.Response.Header.Peek("session_id"))
						} else {
							var ck fasthttp.Cookie
							ck.SetKey("session_id")
							if rc.Response.Header.Cookie(&ck) && !strings.Contains(ck.String(), "max-age=0") && (ck.Expire().IsZero() || ck.Expire().After(time.Now())) {
								back = string(ck.Value())
							}
						}
						expBack := ""
						if end.N != 0 {
							expBack = realID(end.N)
						}
						if modes[hi] == "middleware" && back != expBack {
							fail(j, "id-returned-to-client", expBack, back)
							broken = true
						}
						i = j
					}
				}
				if hi%173 == 0 && vi == 0 {
					o.sample(map[string]any{"source": va.source, "storage": va.storage, "history": hist})
				}
			}
		}
		o.summary(map[string]any{"histories": len(hists), "variants": len(variants), "requests": nReq, "requests_loading_a_live_session": nLoaded,
			"requests_presenting_a_dead_id": nStale, "requests_presenting_a_forged_id": nForged, "violations": o.nV})
		os.Exit(0)
	})
}
