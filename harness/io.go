// Package harness holds the conformance drivers that bind the TLA+ specifications in
// /verif/spec to the real gofiber/fiber code in /repo (see /verif/DESIGN.md section 2.2).
package harness

import (
	"bufio"
	"encoding/json"
	"fmt"
	"os"
	"strconv"
	"strings"
	"sync"
	"testing"
)

// readCases streams ndjson records from the file named by env var `name`.
func readCases(t testing.TB, envName string, fn func(line []byte)) int {
	p := os.Getenv(envName)
	if p == "" {
		t.Skipf("%s not set", envName)
	}
	f, err := os.Open(p)
	if err != nil {
		t.Fatal(err)
	}
	defer f.Close()
	sc := bufio.NewScanner(f)
	sc.Buffer(make([]byte, 1<<20), 1<<26)
	n := 0
	for sc.Scan() {
		b := sc.Bytes()
		if len(b) == 0 {
			continue
		}
		cp := make([]byte, len(b))
		copy(cp, b)
		fn(cp)
		n++
	}
	if err := sc.Err(); err != nil {
		t.Fatal(err)
	}
	return n
}

// out collects the driver's result lines: "V <json>" per violation, "S <json>" per sample,
// "SUMMARY <json>" once.  It writes to the file named by VERIF_OUT (or stdout).
type out struct {
	mu sync.Mutex
	w  *bufio.Writer
	f  *os.File
	nV int
	nS int
}

func newOut(t testing.TB) *out {
	p := os.Getenv("VERIF_OUT")
	o := &out{}
	if p == "" {
		o.w = bufio.NewWriter(os.Stdout)
		return o
	}
	f, err := os.Create(p)
	if err != nil {
		t.Fatal(err)
	}
	o.f = f
	o.w = bufio.NewWriter(f)
	return o
}

func (o *out) line(tag string, v any) {
	b, err := json.Marshal(v)
	if err != nil {
		panic(err)
	}
	o.mu.Lock()
	defer o.mu.Unlock()
	fmt.Fprintf(o.w, "%s %s\n", tag, b)
}

// violation records one failed assertion (at most 2000 are written in full).
func (o *out) violation(v any) {
	o.mu.Lock()
	o.nV++
	n := o.nV
	o.mu.Unlock()
	if n <= vcap() {
		o.line("V", v)
	}
}

func vcap() int {
	if s := os.Getenv("VERIF_VCAP"); s != "" {
		var n int
		fmt.Sscan(s, &n)
		return n
	}
	return 100000
}

func (o *out) sample(v any) {
	o.mu.Lock()
	o.nS++
	n := o.nS
	o.mu.Unlock()
	if n <= 5 {
		o.line("S", v)
	}
}

func (o *out) summary(v any) {
	o.line("SUMMARY", v)
	o.close()
}

func (o *out) close() {
	o.mu.Lock()
	defer o.mu.Unlock()
	o.w.Flush()
	if o.f != nil {
		o.f.Close()
	}
}

// join renders a sequence of the specification's characters; an element "U+XXXX" stands for that code point, "B+XX" for that byte
func join(ss []string) string {
	var b strings.Builder
	for _, e := range ss {
		if strings.HasPrefix(e, "B+") && len(e) == 4 {
			if n, err := strconv.ParseUint(e[2:], 16, 8); err == nil {
				b.WriteByte(byte(n))
				continue
			}
		}
		if strings.HasPrefix(e, "U+") {
			if n, err := strconv.ParseUint(e[2:], 16, 32); err == nil {
				b.WriteRune(rune(n))
				continue
			}
		}
		b.WriteString(e)
	}
	return b.String()
}

func joinAll(sss [][]string) []string {
	r := make([]string, len(sss))
	for i, s := range sss {
		r[i] = join(s)
	}
	return r
}
