package harness

import (
	"encoding/json"
	"fmt"
	"os"
	"sort"
	"strings"
	"testing"

	"github.com/gofiber/fiber/v3"
	"github.com/valyala/fasthttp"
)

// C04: every program TLC generated from spec/Mount.tla (routes inside nested group/mount
// containers) is built on the real code in up to four forms -- as written with real mounts
// (sub-app mounted before / after it is populated), with every mount replaced by a Group, and
// as the FLAT table the specification computed -- and all forms must answer every request alike.

type c04Op struct {
	Op   string   `json:"op"`
	Kind string   `json:"kind"`
	Arg  []string `json:"arg"`
}
type c04Flat struct {
	Kind string   `json:"kind"`
	Path []string `json:"path"`
	ID   int      `json:"id"`
}
type c04Case struct {
	Prog []c04Op   `json:"prog"`
	Flat []c04Flat `json:"flat"`
}

type c04Hit struct {
	ID   int    `json:"id"`
	T    string `json:"t"`
	IDp  string `json:"idp"`
	Star string `json:"star"`
	Path string `json:"path"`
}
type c04Obs struct {
	Hits   []c04Hit `json:"hits"`
	Status int      `json:"status"`
	Allow  string   `json:"allow"`
	Panic  string   `json:"panic,omitempty"`
}

func c04Handler(id int, kind string, rec *[]c04Hit) fiber.Handler {
	return func(c fiber.Ctx) error {
		*rec = append(*rec, c04Hit{ID: id, T: strings.Clone(c.Params("t")), IDp: strings.Clone(c.Params("id")),
			Star: strings.Clone(c.Params("*")), Path: strings.Clone(c.Path())})
		if len(*rec) > 64 {
			return c.SendStatus(508)
		}
		if kind == "use" {
			return c.Next()
		}
		return c.SendStatus(200)
	}
}

// build the program. form: "mount-open" | "mount-close" (real mounts, mounted before/after population) | "group"
func c04Build(cs *c04Case, cfg fiber.Config, form string, rec *[]c04Hit) *fiber.App {
	app := fiber.New(cfg)
	type frame struct {
		r      fiber.Router
		sub    *fiber.App
		prefix string
	}
	stack := []frame{{r: app}}
	id := 0
	for _, op := range cs.Prog {
		cur := stack[len(stack)-1].r
		switch op.Op {
		case "route":
			id++
			h := c04Handler(id, op.Kind, rec)
			p := join(op.Arg)
			if op.Kind == "use" {
				cur.Use(p, h)
			} else {
				cur.Get(p, h)
			}
		case "open":
			p := join(op.Arg)
			if op.Kind == "mount" && form != "group" {
				sub := fiber.New(cfg)
				if form == "mount-open" {
					cur.Use([]string{p}, sub) // the prefix in its list form (Use accepts a string or a list of strings)
				}
				stack = append(stack, frame{r: sub, sub: sub, prefix: p})
			} else {
				stack = append(stack, frame{r: cur.Group(p)})
			}
		case "rebuild":
			app.RebuildTree()
		case "serve":
			doReq(app.Handler(), "GET", "/started")
		case "close":
			f := stack[len(stack)-1]
			stack = stack[:len(stack)-1]
			if f.sub != nil && form == "mount-close" {
				stack[len(stack)-1].r.Use(f.prefix, f.sub)
			}
		}
	}
	return app
}

func c04BuildFlat(cs *c04Case, cfg fiber.Config, rec *[]c04Hit) *fiber.App {
	app := fiber.New(cfg)
	for _, f := range cs.Flat {
		h := c04Handler(f.ID, f.Kind, rec)
		if f.Kind == "use" {
			app.Use(join(f.Path), h)
		} else {
			app.Get(join(f.Path), h)
		}
	}
	return app
}

func c04Requests(cs *c04Case) []string {
	set := map[string]bool{"/": true, "/zzz": true}
	for _, f := range cs.Flat {
		p := join(f.Path)
		p = strings.ReplaceAll(p, ":t", "acme")
		p = strings.ReplaceAll(p, ":id", "7")
		p = strings.ReplaceAll(p, "*", "w/z")
		for _, v := range []string{p, p + "/", strings.TrimRight(p, "/"), strings.TrimRight(p, "/") + "/q", strings.TrimRight(p, "/") + "/7/q"} {
			if v != "" && !strings.HasPrefix(v, "//") {
				set[v] = true
			}
		}
	}
	var out []string
	for k := range set {
		out = append(out, k)
	}
	sort.Strings(out)
	return out
}

func c04Render(cs *c04Case) (string, string) {
	var b strings.Builder
	for _, op := range cs.Prog {
		switch op.Op {
		case "route":
			fmt.Fprintf(&b, "%s(%q); ", op.Kind, join(op.Arg))
		case "open":
			fmt.Fprintf(&b, "%s(%q){ ", op.Kind, join(op.Arg))
		case "rebuild":
			b.WriteString("RebuildTree(); ")
		case "serve":
			b.WriteString("<a request is served>; ")
		case "close":
			b.WriteString("}; ")
		}
	}
	var fl []string
	for _, f := range cs.Flat {
		fl = append(fl, f.Kind+" "+join(f.Path))
	}
	return b.String(), strings.Join(fl, " ; ")
}

func TestC04(t *testing.T) {
	var pc pmCfg
	_ = json.Unmarshal([]byte(os.Getenv("VERIF_CFG")), &pc)
	cfg := fiber.Config{CaseSensitive: pc.Cs, StrictRouting: pc.Strict, UnescapePath: pc.Unesc}
	o := newOut(t)
	defer o.close()
	var n, nReq, nWithMount, nHit, nParamPrefix int
	readCases(t, "VERIF_CASES", func(line []byte) {
		var cs c04Case
		if err := json.Unmarshal(line, &cs); err != nil {
			t.Fatalf("bad case %v", err)
		}
		n++
		hasMount := false
		for _, op := range cs.Prog {
			if op.Op == "open" && op.Kind == "mount" {
				hasMount = true
			}
			if op.Op == "open" && strings.Contains(join(op.Arg), ":") {
				nParamPrefix++
			}
		}
		forms := []string{"group", "flat"}
		if hasMount {
			nWithMount++
			forms = []string{"mount-open", "mount-close", "group", "flat"}
		}
		recs := make([]*[]c04Hit, len(forms))
		hs := make([]fasthttp.RequestHandler, len(forms))
		buildPanic := make([]string, len(forms))
		for i, f := range forms {
			recs[i] = &[]c04Hit{}
			func() {
				defer func() {
					if r := recover(); r != nil {
						buildPanic[i] = fmt.Sprint(r)
					}
				}()
				var app *fiber.App
				if f == "flat" {
					app = c04BuildFlat(&cs, cfg, recs[i])
				} else {
					app = c04Build(&cs, cfg, f, recs[i])
				}
				hs[i] = app.Handler()
			}()
		}
		reqs := c04Requests(&cs)
		for _, method := range []string{"GET", "POST"} {
			for _, p := range reqs {
				nReq++
				obs := make([]c04Obs, len(forms))
				for i := range forms {
					*recs[i] = (*recs[i])[:0]
					if buildPanic[i] != "" {
						obs[i] = c04Obs{Panic: "build: " + buildPanic[i], Hits: []c04Hit{}}
						continue
					}
					func() {
						defer func() {
							if r := recover(); r != nil {
								obs[i].Panic = fmt.Sprint(r)
							}
						}()
						rc := doReq(hs[i], method, p)
						obs[i].Status = rc.Response.StatusCode()
						obs[i].Allow = strings.Join(parseAllow(string(rc.Response.Header.Peek("Allow"))), ",")
					}()
					obs[i].Hits = append([]c04Hit{}, (*recs[i])...)
				}
				ref := len(forms) - 1 // the flat form is the reference
				if len(obs[ref].Hits) > 0 {
					nHit++
				}
				rj, _ := json.Marshal(obs[ref])
				for i := 0; i < ref; i++ {
					oj, _ := json.Marshal(obs[i])
					if string(oj) != string(rj) {
						prog, flat := c04Render(&cs)
						o.violation(map[string]any{"check": forms[i] + "-differs-from-flat", "prop": "C04", "program": prog, "flat": flat,
							"req": method + " " + p, "cfg": pc, "observed": obs[i], "expected": obs[ref], "form": forms[i]})
						break
					}
				}
				if nReq%50021 == 1 {
					prog, flat := c04Render(&cs)
					o.sample(map[string]any{"program": prog, "flat": flat, "req": method + " " + p, "flat_observation": obs[ref], "forms": forms})
				}
			}
		}
	})
	o.summary(map[string]any{"cases": n, "requests": nReq, "programs_with_mount": nWithMount, "requests_hitting_a_handler": nHit,
		"param_prefix_containers": nParamPrefix, "violations": o.nV})
}
