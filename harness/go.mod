module verif/harness

go 1.26

require (
	github.com/fxamacker/cbor/v2 v2.8.0
	github.com/gofiber/fiber/v3 v3.0.0
	github.com/gofiber/utils/v2 v2.0.0-beta.8
	github.com/tinylib/msgp v1.2.5
	github.com/valyala/fasthttp v1.60.0
)

require (
	github.com/andybalholm/brotli v1.1.1 // indirect
	github.com/gofiber/schema v1.3.0 // indirect
	github.com/google/uuid v1.6.0 // indirect
	github.com/klauspost/compress v1.18.0 // indirect
	github.com/mattn/go-colorable v0.1.14 // indirect
	github.com/mattn/go-isatty v0.0.20 // indirect
	github.com/philhofer/fwd v1.1.3-0.20240916144458-20a13a1f6b7c // indirect
	github.com/valyala/bytebufferpool v1.0.0 // indirect
	github.com/x448/float16 v0.8.4 // indirect
	golang.org/x/crypto v0.37.0 // indirect
	golang.org/x/net v0.38.0 // indirect
	golang.org/x/sys v0.32.0 // indirect
	golang.org/x/text v0.24.0 // indirect
)

replace github.com/gofiber/fiber/v3 => /repo
