package harness

import (
	"encoding/json"
	"fmt"
	"strings"
	"testing"

	"github.com/gofiber/fiber/v3"
	"github.com/gofiber/fiber/v3/middleware/cors"
	"github.com/valyala/fasthttp"
)

// C19: every (configuration, request) pair TLC enumerated from spec/Cors.tla is run through the real middleware;
// the Access-Control-* headers, Vary, status and whether the handler ran are compared with the spec's answer.

type corsOrigin struct {
	Scheme string `json:"scheme"`
	Host   string `json:"host"`
	Port   string `json:"port"`
}

func (o corsOrigin) String() string {
	if o.Scheme == "null" {
		return "null"
	}
	if o.Scheme == "" {
		return ""
	}
	s := o.Scheme + "://" + o.Host
	if o.Port != "" {
		s += ":" + o.Port
	}
	return s
}

type corsCase struct {
	Cfg struct {
		Exact  []corsOrigin `json:"exact"`
		Wild   []corsOrigin `json:"wild"`
		Fn     bool         `json:"fn"`
		All    bool         `json:"all"`
		Blank  bool         `json:"blank"`
		Cred   bool         `json:"cred"`
		Pna    bool         `json:"pna"`
		MaxAge int          `json:"maxAge"`
		Hdrs   bool         `json:"hdrs"`
		Expose bool         `json:"expose"`
		Spell  string       `json:"spell"`
	} `json:"cfg"`
	Req struct {
		Method string     `json:"method"`
		Origin corsOrigin `json:"origin"`
		Acrm   bool       `json:"acrm"`
		Acrh   bool       `json:"acrh"`
		Pna    bool       `json:"pna"`
		Upper  bool       `json:"upper"`
	} `json:"req"`
	Ans struct {
		Panic      bool   `json:"panic"`
		Acao       string `json:"acao"`
		Acac       bool   `json:"acac"`
		VaryOrigin string `json:"varyOrigin"`
		Status     int    `json:"status"`
		Handler    bool   `json:"handler"`
		Acam       bool   `json:"acam"`
		Acah       string `json:"acah"`
		Apn        bool   `json:"apn"`
		MaxAge     int    `json:"maxAge"`
		Expose     bool   `json:"expose"`
	} `json:"ans"`
}

func TestC19(t *testing.T) {
	reusedRC := &fasthttp.RequestCtx{}
	o := newOut(t)
	defer o.close()
	type built struct {
		h      fasthttp.RequestHandler
		ran    *bool
		panicV string
	}
	cache := map[string]*built{}
	var n, nAllowed, nPreflight, nPanicCfg, nBlankRefused int
	readCases(t, "VERIF_CASES", func(line []byte) {
		var cs corsCase
		if err := json.Unmarshal(line, &cs); err != nil {
			t.Fatalf("bad case %v", err)
		}
		n++
		ckey, _ := json.Marshal(cs.Cfg)
		b := cache[string(ckey)]
		if b == nil {
			b = &built{ran: new(bool)}
			cache[string(ckey)] = b
			func() {
				defer func() {
					if r := recover(); r != nil {
						b.panicV = fmt.Sprint(r)
					}
				}()
				cfg := cors.Config{AllowCredentials: cs.Cfg.Cred, AllowPrivateNetwork: cs.Cfg.Pna, MaxAge: cs.Cfg.MaxAge,
					AllowMethods: []string{"GET", "POST", "DELETE"}}
				if cs.Cfg.All {
					cfg.AllowOrigins = []string{"*"}
				}
				if cs.Cfg.Blank {
					cfg.AllowOrigins = []string{" ", ""}
				}
				spell := func(s string) string {
					switch cs.Cfg.Spell {
					case "slash":
						return s + "/"
					case "upper":
						return strings.ToUpper(s)
					case "space":
						return "  " + s + " "
					}
					return s
				}
				for _, e := range cs.Cfg.Exact {
					cfg.AllowOrigins = append(cfg.AllowOrigins, spell(e.String()))
				}
				for _, w := range cs.Cfg.Wild {
					s := w.Scheme + "://*." + w.Host
					if w.Port != "" {
						s += ":" + w.Port
					}
					cfg.AllowOrigins = append(cfg.AllowOrigins, spell(s))
				}
				if cs.Cfg.Fn {
					cfg.AllowOriginsFunc = func(origin string) bool { return origin == "https://other.org" }
				}
				if cs.Cfg.Hdrs {
					cfg.AllowHeaders = []string{"X-Conf-A", "X-Conf-B"}
				}
				if cs.Cfg.Expose {
					cfg.ExposeHeaders = []string{"X-Exposed"}
				}
				app := fiber.New()
				app.Use(cors.New(cfg))
				app.All("/", func(c fiber.Ctx) error { *b.ran = true; return c.SendStatus(200) })
				b.h = app.Handler()
			}()
		}
		if cs.Ans.Panic {
			nPanicCfg++
			if b.panicV == "" {
				o.violation(map[string]any{"check": "invalid-config-accepted", "prop": "C19", "cfg": cs.Cfg})
			}
			return
		}
		if b.panicV != "" && cs.Cfg.Blank {
			nBlankRefused++
			return // a list that names nothing may be refused by the constructor
		}
		if b.panicV != "" {
			o.violation(map[string]any{"check": "valid-config-rejected", "prop": "C19", "cfg": cs.Cfg, "panic": b.panicV})
			return
		}
		origin := cs.Req.Origin.String()
		sent := origin
		if cs.Req.Upper {
			sent = strings.ToUpper(origin[:1]) + origin[1:]
			if i := strings.Index(sent, "://"); i > 0 {
				sent = strings.ToUpper(sent[:i]) + "://" + strings.ToUpper(sent[i+3:i+4]) + sent[i+4:]
			}
		}
		kv := []string{}
		if origin != "" {
			kv = append(kv, "Origin", sent)
		}
		if cs.Req.Acrm {
			kv = append(kv, "Access-Control-Request-Method", "DELETE")
		}
		if cs.Req.Acrh {
			kv = append(kv, "Access-Control-Request-Headers", "X-Asked")
		}
		if cs.Req.Pna {
			kv = append(kv, "Access-Control-Request-Private-Network", "true")
		}
		*b.ran = false
		// every case is served on the same RequestCtx, as the requests of one keep-alive connection are: header buffers are recycled
		rc := reusedRC
		doReqReuse(rc, b.h, cs.Req.Method, "/", kv...)
		hdr := func(k string) string { return string(rc.Response.Header.Peek(k)) }
		vary := strings.ToLower(strings.Join(peekAll(rc, "Vary"), ","))
		var bad []string
		expAcao := map[string]string{"": "", "*": "*", "origin": strings.ToLower(origin)}[cs.Ans.Acao]
		if hdr("Access-Control-Allow-Origin") != expAcao {
			bad = append(bad, "Access-Control-Allow-Origin")
		}
		if expAcao != "" {
			nAllowed++
		}
		if (hdr("Access-Control-Allow-Credentials") == "true") != cs.Ans.Acac || (hdr("Access-Control-Allow-Credentials") != "" && hdr("Access-Control-Allow-Credentials") != "true") {
			bad = append(bad, "Access-Control-Allow-Credentials")
		}
		if hdr("Access-Control-Allow-Origin") == "*" && hdr("Access-Control-Allow-Credentials") != "" {
			bad = append(bad, "star-with-credentials")
		}
		if cs.Ans.VaryOrigin == "yes" && !strings.Contains(vary, "origin") {
			bad = append(bad, "Vary: Origin missing")
		}
		if rc.Response.StatusCode() != cs.Ans.Status {
			bad = append(bad, "status")
		}
		if *b.ran != cs.Ans.Handler {
			bad = append(bad, "handler-reached")
		}
		if cs.Ans.Acam {
			nPreflight++
			if hdr("Access-Control-Allow-Methods") != "GET, POST, DELETE" {
				bad = append(bad, "Access-Control-Allow-Methods")
			}
		} else if hdr("Access-Control-Allow-Methods") != "" {
			bad = append(bad, "Access-Control-Allow-Methods on a non-preflight")
		}
		expAcah := map[string]string{"": "", "configured": "X-Conf-A, X-Conf-B", "echo": "X-Asked"}[cs.Ans.Acah]
		if hdr("Access-Control-Allow-Headers") != expAcah {
			bad = append(bad, "Access-Control-Allow-Headers")
		}
		if (hdr("Access-Control-Allow-Private-Network") == "true") != cs.Ans.Apn {
			bad = append(bad, "Access-Control-Allow-Private-Network")
		}
		expMA := ""
		if cs.Ans.MaxAge > 0 {
			expMA = fmt.Sprint(cs.Ans.MaxAge)
		} else if cs.Ans.MaxAge < 0 {
			expMA = "0"
		}
		if hdr("Access-Control-Max-Age") != expMA {
			bad = append(bad, "Access-Control-Max-Age")
		}
		if (hdr("Access-Control-Expose-Headers") != "") != cs.Ans.Expose {
			bad = append(bad, "Access-Control-Expose-Headers")
		}
		if len(bad) > 0 {
			o.violation(map[string]any{"check": "cors-" + bad[0], "prop": "C19", "all_differences": bad, "cfg": cs.Cfg, "req": cs.Req, "origin_sent": sent,
				"expected": cs.Ans, "observed": map[string]any{"acao": hdr("Access-Control-Allow-Origin"), "acac": hdr("Access-Control-Allow-Credentials"), "vary": vary,
					"status": rc.Response.StatusCode(), "handler": *b.ran, "acam": hdr("Access-Control-Allow-Methods"), "acah": hdr("Access-Control-Allow-Headers"),
					"maxage": hdr("Access-Control-Max-Age")}})
		}
		if n%49999 == 1 {
			o.sample(map[string]any{"cfg": cs.Cfg, "req": cs.Req, "origin_sent": sent, "answer": cs.Ans})
		}
	})
	o.summary(map[string]any{"cases": n, "origin_allowed": nAllowed, "preflights": nPreflight, "invalid_configs": nPanicCfg, "blank_origin_lists_refused_by_the_constructor": nBlankRefused, "violations": o.nV})
}

func peekAll(rc *fasthttp.RequestCtx, key string) []string {
	var r []string
	for _, v := range rc.Response.Header.PeekAll(key) {
		r = append(r, string(v))
	}
	return r
}
