package harness

import (
	"bytes"
	"encoding/base64"
	"encoding/json"
	"fmt"
	"io"
	"net"
	"os"
	"strings"
	"testing"
	"time"

	"github.com/gofiber/fiber/v3"
	"github.com/gofiber/fiber/v3/client"
	"github.com/valyala/fasthttp/fasthttputil"
)

// C18 (request assembly, body part): every setter-call sequence TLC enumerated from spec/ClientBody.tla is made on a real
// request, sent twice over an in-memory connection, and what a fiber server parses out of the body is compared with what the
// specification says arrives (form values per key in order, files with field name / file name / content, raw bytes, content type).

func bodyVal(class, key string, i int) string {
	switch class {
	case "esc":
		return fmt.Sprintf("a b&c=d/é+%%41;\"%s-%d\"\r\nx", key, i)
	case "empty":
		return ""
	}
	return fmt.Sprintf("plain-%s-%d", key, i)
}

func bodyFileName(class string, i int) string {
	if class == "esc" {
		return fmt.Sprintf("a b;c=é %d.txt", i)
	}
	return fmt.Sprintf("file-%d.txt", i)
}

func bodyContent(class string, i int) []byte {
	switch class {
	case "binary":
		b := make([]byte, 700)
		for k := range b {
			b[k] = byte(k*7 + i)
		}
		return b
	case "boundarylike":
		return []byte(fmt.Sprintf("line\r\n--FiberFormBoundary\r\n--boundary--\r\nContent-Disposition: form-data; name=\"x\"\r\n\r\ninjected-%d\r\n", i))
	case "empty":
		return nil
	case "long":
		return bytes.Repeat([]byte("0123456789abcdef"), 5000)
	}
	return []byte(fmt.Sprintf("text content %d\n", i))
}

type bodyCall struct {
	Op string `json:"op"`
	A  string `json:"a"`
	B  string `json:"b"`
}
type bodyArrives struct {
	Kind  string              `json:"kind"`
	CT    string              `json:"ct"`
	Form  map[string][]string `json:"form"`
	Files []struct {
		Field   int    `json:"field"`
		Name    string `json:"name"`
		Content string `json:"content"`
	} `json:"files"`
	Raw string `json:"raw"`
}
type bodySeen struct {
	CT    string              `json:"ct"`
	Form  map[string][]string `json:"form"`
	Files [][3]string         `json:"files"` // field, name, base64(content)
	Raw   string              `json:"raw"`   // base64
}

func TestC18Body(t *testing.T) {
	if os.Getenv("VERIF_CASES") == "" {
		t.Skip("VERIF_CASES not set")
	}
	o := newOut(t)
	defer o.close()
	app := fiber.New(fiber.Config{BodyLimit: 8 << 20})
	app.Post("/b", func(c fiber.Ctx) error {
		seen := bodySeen{Form: map[string][]string{}}
		ct := string(c.Request().Header.ContentType())
		if i := strings.IndexByte(ct, ';'); i >= 0 {
			ct = ct[:i]
		}
		seen.CT = ct
		switch ct {
		case "multipart/form-data":
			mf, err := c.MultipartForm()
			if err != nil {
				return c.Status(400).SendString("multipart: " + err.Error())
			}
			for k, vs := range mf.Value {
				seen.Form[k] = append([]string{}, vs...)
			}
			// files in the order of the field names file1, file2 ...
			for i := 1; i <= 4; i++ {
				for _, fh := range mf.File[fmt.Sprintf("file%d", i)] {
					f, err := fh.Open()
					if err != nil {
						return err
					}
					b, _ := io.ReadAll(f)
					f.Close()
					seen.Files = append(seen.Files, [3]string{fmt.Sprintf("file%d", i), fh.Filename, base64.StdEncoding.EncodeToString(b)})
				}
			}
			for k := range mf.File {
				if !strings.HasPrefix(k, "file") {
					seen.Files = append(seen.Files, [3]string{k, "?", ""})
				}
			}
		case "application/x-www-form-urlencoded":
			c.Request().PostArgs().VisitAll(func(k, v []byte) { seen.Form[string(k)] = append(seen.Form[string(k)], string(v)) })
		default:
			seen.Raw = base64.StdEncoding.EncodeToString(c.Body())
		}
		return c.JSON(seen)
	})
	ln := fasthttputil.NewInmemoryListener()
	go func() { _ = app.Listener(ln, fiber.ListenConfig{DisableStartupMessage: true}) }()
	var n, nFiles, nEsc int
	readCases(t, "VERIF_CASES", func(line []byte) {
		var cs struct {
			Calls   []bodyCall  `json:"calls"`
			Arrives bodyArrives `json:"arrives"`
		}
		if err := json.Unmarshal(line, &cs); err != nil {
			t.Fatalf("bad case %v", err)
		}
		n++
		// expected, concretely
		exp := bodySeen{CT: cs.Arrives.CT, Form: map[string][]string{}}
		cnt := map[string]int{}
		for _, cl := range cs.Calls {
			if cl.Op == "form" {
				cnt[cl.A]++
				exp.Form[cl.A] = append(exp.Form[cl.A], bodyVal(cl.B, cl.A, cnt[cl.A]))
				if cl.B == "esc" {
					nEsc++
				}
			}
		}
		// cross-check with the specification's own per-key value classes
		for k, classes := range cs.Arrives.Form {
			if len(classes) != len(exp.Form[k]) {
				t.Fatalf("harness and specification disagree on the fields of %s: %v vs %v", k, classes, exp.Form[k])
			}
		}
		for _, f := range cs.Arrives.Files {
			exp.Files = append(exp.Files, [3]string{fmt.Sprintf("file%d", f.Field), bodyFileName(f.Name, f.Field), base64.StdEncoding.EncodeToString(bodyContent(f.Content, f.Field))})
		}
		if len(exp.Files) > 0 {
			nFiles++
		}
		var jsonVal any
		switch cs.Arrives.Kind {
		case "raw":
			exp.Raw = base64.StdEncoding.EncodeToString(bodyContent(cs.Arrives.Raw, 0))
		case "json":
			jsonVal = map[string]any{"s": "a b&c\"é", "n": 42.5, "l": []any{"x", nil, true}}
			b, _ := json.Marshal(jsonVal)
			exp.Raw = base64.StdEncoding.EncodeToString(b)
		case "none":
			exp.Raw = ""
		}
		send := func() (*bodySeen, string) {
			cl := client.New().SetDial(func(string) (net.Conn, error) { return ln.Dial() }).SetTimeout(20 * time.Second)
			rq := cl.R()
			fi := 0
			fcnt := map[string]int{}
			for _, c := range cs.Calls {
				switch c.Op {
				case "form":
					fcnt[c.A]++
					rq.AddFormData(c.A, bodyVal(c.B, c.A, fcnt[c.A]))
				case "file":
					fi++
					rq.AddFileWithReader(bodyFileName(c.A, fi), io.NopCloser(bytes.NewReader(bodyContent(c.B, fi))))
				case "raw":
					rq.SetRawBody(bodyContent(c.A, 0))
				case "json":
					rq.SetJSON(jsonVal)
				}
			}
			resp, err := rq.Post("http://body.test/b")
			if err != nil {
				return nil, "request failed: " + err.Error()
			}
			defer resp.Close()
			if resp.StatusCode() != 200 {
				return nil, fmt.Sprintf("status %d %s", resp.StatusCode(), resp.Body())
			}
			var seen bodySeen
			if err := json.Unmarshal(resp.Body(), &seen); err != nil {
				return nil, "reply unreadable: " + string(resp.Body())
			}
			return &seen, ""
		}
		canon := func(s *bodySeen) string {
			c := *s
			if cs.Arrives.Kind == "raw" || cs.Arrives.Kind == "none" {
				c.CT = "" // no content type was configured: whatever the transport fills in
			}
			if c.Form == nil {
				c.Form = map[string][]string{}
			}
			for k, v := range c.Form {
				if len(v) == 0 {
					delete(c.Form, k)
				}
			}
			b, _ := json.Marshal(c)
			return string(b)
		}
		g1, e1 := send()
		g2, e2 := send()
		bad, obs := "", ""
		switch {
		case e1 != "" || e2 != "":
			bad, obs = "request-failed", e1+" | "+e2
		case canon(g1) != canon(&exp):
			bad, obs = "body-arrives-differently", canon(g1)
		case canon(g1) != canon(g2):
			bad, obs = "not-deterministic", canon(g2)
		}
		if bad != "" {
			o.violation(map[string]any{"check": "body-" + bad, "prop": "C18", "calls": cs.Calls, "kind": cs.Arrives.Kind, "expected": canon(&exp), "observed": obs})
		}
		if n%1501 == 1 {
			o.sample(map[string]any{"calls": cs.Calls, "arrives_content_type": exp.CT, "files": len(exp.Files)})
		}
	})
	o.summary(map[string]any{"cases": n, "with_files": nFiles, "escaping_needed_values": nEsc, "violations": o.nV})
}
