package harness

import (
	"encoding/json"
	"errors"
	"fmt"
	"os"
	"sort"
	"strconv"
	"testing"

	"github.com/gofiber/fiber/v3"
)

// C08: scenarios (mount forest, which apps configured an error handler / a failing one, request path,
// error kind) come from spec/ErrorHandler.tla together with the handler the specification selects;
// each is run repeatedly (the implementation ranges over a Go map) on apps built parent-first and child-first.

type c08App struct {
	ID     int      `json:"id"`
	Full   []string `json:"full"`
	Parent int      `json:"parent"`
	Local  []string `json:"local"`
}
type c08Flag struct {
	ID    int    `json:"id"`
	Has   bool   `json:"has"`
	Fails string `json:"fails"`
}
type c08Case struct {
	Apps   []c08App           `json:"apps"`
	Cfg    map[string]c08Flag `json:"cfg"`
	Path   []string           `json:"path"`
	Kind   string             `json:"kind"`
	Chosen int                `json:"chosen"`
	Status int                `json:"status"`
}

// c08Mount: a sub-application is mounted with Use on the parent, or -- the same thing written differently -- with Use on a
// Group of the parent
func c08Mount(parent *fiber.App, prefix string, sub *fiber.App, viaGroup bool) {
	if viaGroup {
		parent.Group("/").Use(prefix, sub)
		return
	}
	parent.Use(prefix, sub)
}

func c08Build(cs *c08Case, order string, hits *[]int, where string, viaGroup bool) *fiber.App {
	mk := func(id int) *fiber.App {
		f := cs.Cfg[strconv.Itoa(id)]
		cfg := fiber.Config{}
		if f.Has {
			cfg.ErrorHandler = func(c fiber.Ctx, _ error) error {
				*hits = append(*hits, id)
				switch f.Fails {
				case "plain":
					return errors.New("error handler failed")
				case "fiber503":
					return fiber.NewError(503, "error handler failed")
				}
				return c.Status(520 + id).SendString("handled")
			}
		}
		return fiber.New(cfg)
	}
	raise := func(c fiber.Ctx) error {
		switch c.Get("X-Kind") {
		case "fiber418":
			return fiber.NewError(418, "teapot")
		case "wrapped418":
			return fmt.Errorf("while handling %s: %w", c.Path(), fiber.NewError(418, "teapot"))
		case "plain":
			return errors.New("plain")
		}
		return c.Next()
	}
	root := mk(0)
	if where == "first" {
		root.Use(raise)
	}
	apps := map[int]*fiber.App{0: root}
	sorted := append([]c08App{}, cs.Apps...)
	sort.Slice(sorted, func(i, j int) bool { return len(sorted[i].Full) < len(sorted[j].Full) }) // parents before children
	for _, a := range sorted {
		apps[a.ID] = mk(a.ID)
		if where == "inside" { // the error is returned by a handler of the (outermost) mounted app the request enters
			apps[a.ID].Use(raise)
		} else {
			apps[a.ID].Use(func(c fiber.Ctx) error { return c.Next() })
		}
	}
	if order == "child-first" {
		for i := len(sorted) - 1; i >= 0; i-- {
			c08Mount(apps[sorted[i].Parent], join(sorted[i].Local), apps[sorted[i].ID], viaGroup)
		}
	} else {
		for _, a := range sorted {
			c08Mount(apps[a.Parent], join(a.Local), apps[a.ID], viaGroup)
		}
	}
	if where == "last" || where == "inside" { // (inside: a request that enters no mounted app still has its error raised)
		root.Use(raise)
	}
	return root
}

func TestC08(t *testing.T) {
	reps := 2
	if os.Getenv("VERIF_TIER") == "thorough" {
		reps = 25
	}
	o := newOut(t)
	defer o.close()
	var n, nRuns, nMounted, nAmbiguous int
	readCases(t, "VERIF_CASES", func(line []byte) {
		var cs c08Case
		if err := json.Unmarshal(line, &cs); err != nil {
			t.Fatalf("bad case %v", err)
		}
		n++
		if cs.Chosen != 0 {
			nMounted++
		}
		if len(cs.Apps) > 1 {
			nAmbiguous++
		}
		path := join(cs.Path)
		for _, order := range []string{"parent-first", "child-first"} {
			for _, where := range []string{"first", "last", "inside"} {
				var hits []int
				var h = func() (hh func(method, p, kind string) (int, string)) {
					defer func() {
						if r := recover(); r != nil {
							msg := fmt.Sprint(r)
							hh = func(string, string, string) (int, string) { return 0, "build panic: " + msg }
						}
					}()
					app := c08Build(&cs, order, &hits, where, n%2 == 0)
					handler := app.Handler()
					return func(method, p, kind string) (st int, pan string) {
						defer func() {
							if r := recover(); r != nil {
								pan = fmt.Sprint(r)
							}
						}()
						rc := doReqH(handler, method, p, "X-Kind", kind)
						return rc.Response.StatusCode(), ""
					}
				}()
				for r := 0; r < reps; r++ {
					nRuns++
					hits = hits[:0]
					st, pan := h("GET", path, cs.Kind)
					exp := []int{}
					if cs.Cfg[strconv.Itoa(cs.Chosen)].Has {
						exp = []int{cs.Chosen}
					}
					got := append([]int{}, hits...)
					if pan != "" || st != cs.Status || !eqInts(got, exp) {
						var pre []string
						for _, a := range cs.Apps {
							f := cs.Cfg[strconv.Itoa(a.ID)]
							pre = append(pre, fmt.Sprintf("%s(handler=%v,fails=%v)", join(a.Full), f.Has, f.Fails))
						}
						sort.Strings(pre)
						o.violation(map[string]any{"check": "wrong-error-handler-or-status", "prop": "C08", "mounts": pre, "root": cs.Cfg["0"],
							"path": path, "kind": cs.Kind, "order": order, "mounted_through_a_group": n%2 == 0, "raised": where, "expected": map[string]any{"handlers": exp, "status": cs.Status},
							"observed": map[string]any{"handlers": got, "status": st, "panic": pan}, "run": r})
						break
					}
				}
			}
		}
		if n%9001 == 1 {
			o.sample(map[string]any{"apps": cs.Apps, "cfg": cs.Cfg, "path": path, "kind": cs.Kind, "chosen": cs.Chosen, "status": cs.Status})
		}
	})
	o.summary(map[string]any{"cases": n, "runs": nRuns, "chosen_is_mounted_app": nMounted, "forests_with_several_apps": nAmbiguous, "violations": o.nV})
}
