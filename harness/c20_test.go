package harness

import (
	"crypto/aes"
	"crypto/cipher"
	"encoding/base64"
	"encoding/json"
	"fmt"
	"strconv"
	"strings"
	"sync"
	"testing"

	"github.com/gofiber/fiber/v3"
	"github.com/gofiber/fiber/v3/middleware/encryptcookie"
	"github.com/valyala/fasthttp"
)

// C20: the symbolic scenarios of spec/EncryptCookie.tla (what the handler set, what the client presents under each
// name: the issued ciphertext, another cookie's ciphertext, a mutation, plaintext, garbage) are made concrete on real
// AES-GCM ciphertexts: "flip" is expanded to EVERY byte of the ciphertext, "truncate" to every length.

type c20Case struct {
	Outcome string            `json:"outcome"`
	Except  []string          `json:"except"`
	Keylen  int               `json:"keylen"`
	Class   string            `json:"class"`
	Present map[string]string `json:"present"`
	View    map[string]string `json:"view"`
	Wire    map[string]string `json:"wire"`
}

func c20Plain(class, name string) string {
	switch class {
	case "ascii":
		return "value-of-" + name
	case "binary":
		// non-ASCII bytes and '=' -- but no ';', ',', space, quote or control byte: those do not survive the response's own
		// Set-Cookie serialisation, which the middleware reads the value back from (outside what can be asked of it)
		return "\xfe\xc3" + name + "\xff=~|\x80z"
	case "empty":
		return ""
	case "huge":
		return strings.Repeat("H"+name, 2000) // 4000 bytes: its ciphertext is longer than a browser would store, a non-browser client returns it
	case "issued":
		// a text that is itself a cookie value the server issued under the current key (a handler echoing what a client sent)
		k := fmt.Sprintf("%d/%s", c20Keylen, name)
		if v, ok := c20IssuedCache[k]; ok {
			return v
		}
		v, err := encryptcookie.EncryptCookie("inner-"+name, base64.StdEncoding.EncodeToString(c20RawKey(c20Keylen)))
		if err != nil {
			panic(err)
		}
		c20IssuedCache[k] = v
		return v
	}
	return strings.Repeat("L"+name, 700)
}

var c20Keylen int // key length of the case being replayed (sequential drivers)
var c20IssuedCache = map[string]string{}

func c20RawKey(n int) []byte {
	k := make([]byte, n)
	for i := range k {
		k[i] = byte(i*7 + n)
	}
	return k
}

func gcmOpen(key []byte, b64 string) (string, bool) {
	raw, err := base64.StdEncoding.DecodeString(b64)
	if err != nil || len(raw) < 12 {
		return "", false
	}
	blk, _ := aes.NewCipher(key)
	g, _ := cipher.NewGCM(blk)
	pt, err := g.Open(nil, raw[:12], raw[12:], nil)
	return string(pt), err == nil
}

func TestC20(t *testing.T) {
	o := newOut(t)
	defer o.close()
	var n, nVariants, nTamper int
	readCases(t, "VERIF_CASES", func(line []byte) {
		var cs c20Case
		if err := json.Unmarshal(line, &cs); err != nil {
			t.Fatalf("bad case %v", err)
		}
		n++
		c20Keylen = cs.Keylen
		rawKey := c20RawKey(cs.Keylen)
		otherKey := make([]byte, cs.Keylen)
		for i := range otherKey {
			otherKey[i] = byte(i*11 + 3)
		}
		key := base64.StdEncoding.EncodeToString(rawKey)
		names := []string{"a", "b"}
		seen := map[string]string{}
		app := fiber.New()
		app.Use(encryptcookie.New(encryptcookie.Config{Key: key, Except: cs.Except}))
		app.Get("/set", func(c fiber.Ctx) error {
			for _, nm := range names {
				c.Cookie(&fiber.Cookie{Name: nm, Value: c20Plain(cs.Class, nm)})
			}
			if cs.Outcome == "error" {
				return fiber.NewError(403, "denied after the cookies were set")
			}
			return c.SendStatus(200)
		})
		app.Get("/get", func(c fiber.Ctx) error {
			for _, nm := range names {
				if c.Request().Header.Cookie(nm) == nil && c.Cookies(nm, "\x00absent") == "\x00absent" {
					seen[nm] = "\x00absent"
				} else {
					seen[nm] = c.Cookies(nm)
				}
			}
			return c.SendStatus(200)
		})
		h := app.Handler()
		// request 1: what reaches the wire
		rc := doReqH(h, "GET", "/set")
		wire := map[string]string{}
		rc.Response.Header.VisitAllCookie(func(k, v []byte) {
			var ck fasthttp.Cookie
			_ = ck.ParseBytes(v)
			wire[string(k)] = string(ck.Value())
		})
		isExcept := func(nm string) bool {
			for _, e := range cs.Except {
				if e == nm {
					return true
				}
			}
			return false
		}
		for _, nm := range names {
			pt := c20Plain(cs.Class, nm)
			if cs.Wire[nm] == "ciphertext" {
				got, ok := gcmOpen(rawKey, wire[nm])
				if !ok || got != pt || (pt != "" && strings.Contains(wire[nm], pt)) {
					o.violation(map[string]any{"check": "wire-not-ciphertext-of-plaintext", "prop": "C20", "case": cs, "name": nm, "wire": wire[nm]})
					return
				}
				if _, okOther := gcmOpen(otherKey, wire[nm]); okOther {
					o.violation(map[string]any{"check": "wire-opens-with-another-key", "prop": "C20", "case": cs, "name": nm})
					return
				}
			} else if cs.Class != "binary" && wire[nm] != pt { // excepted names pass through unchanged (binary bytes are not cookie-octets)
				o.violation(map[string]any{"check": "excepted-cookie-changed-on-the-way-out", "prop": "C20", "case": cs, "name": nm, "wire": wire[nm]})
				return
			}
		}
		// request 2: every concrete variant of what the client presents
		variants := func(nm, kind string) []string {
			own := wire[nm]
			other := wire[map[string]string{"a": "b", "b": "a"}[nm]]
			raw, _ := base64.StdEncoding.DecodeString(own)
			enc := func(b []byte) string { return base64.StdEncoding.EncodeToString(b) }
			switch kind {
			case "absent":
				return []string{"\x00absent"}
			case "own":
				return []string{own}
			case "swapped":
				return []string{other}
			case "flip":
				var r []string
				step := 1
				if len(raw) > 200 {
					step = 37
				}
				for i := 0; i < len(raw); i += step {
					for _, bit := range []byte{1, 0x80} {
						m := append([]byte{}, raw...)
						m[i] ^= bit
						r = append(r, enc(m))
					}
				}
				return r
			case "truncate":
				var r []string
				step := 1
				if len(raw) > 200 {
					step = 41
				}
				for i := 0; i < len(raw); i += step {
					r = append(r, enc(raw[:i]))
				}
				r = append(r, own[:len(own)/2])
				return r
			case "extend":
				return []string{enc(append(append([]byte{}, raw...), 0)), enc(append(append([]byte{}, raw...), raw...)), own + "AAAA"}
			case "otherkey":
				blk, _ := aes.NewCipher(otherKey)
				g, _ := cipher.NewGCM(blk)
				nonce := make([]byte, 12)
				return []string{enc(g.Seal(nonce, nonce, []byte(c20Plain(cs.Class, nm)), nil))}
			case "plaintext":
				return []string{"value-of-" + nm, base64.StdEncoding.EncodeToString([]byte("value-of-" + nm))}
			case "garbage":
				return []string{"!!!!", "AAAA", strings.Repeat("Zm9v", 12), "="}
			case "empty":
				return []string{""}
			}
			return nil
		}
		va, vb := variants("a", cs.Present["a"]), variants("b", cs.Present["b"])
		for i := 0; i < len(va) || i < len(vb); i++ {
			pa, pb := va[i%len(va)], vb[i%len(vb)]
			nVariants++
			if cs.Present["a"] != "own" && cs.Present["a"] != "absent" || cs.Present["b"] != "own" && cs.Present["b"] != "absent" {
				nTamper++
			}
			var parts []string
			presented := map[string]string{"a": pa, "b": pb}
			for _, nm := range names {
				if presented[nm] != "\x00absent" {
					parts = append(parts, nm+"="+presented[nm])
				}
			}
			for k := range seen {
				delete(seen, k)
			}
			kv := []string{}
			if len(parts) > 0 {
				kv = []string{"Cookie", strings.Join(parts, "; ")}
			}
			rc := doReqH(h, "GET", "/get", kv...)
			if rc.Response.StatusCode() != 200 {
				o.violation(map[string]any{"check": "request-failed", "prop": "C20", "case": cs, "status": rc.Response.StatusCode(), "body": string(rc.Response.Body())})
				return
			}
			for _, nm := range names {
				var exp string
				switch cs.View[nm] {
				case "absent":
					exp = "\x00absent"
				case "raw":
					exp = presented[nm]
				case "pt:own":
					exp = c20Plain(cs.Class, nm)
				case "pt:other":
					exp = c20Plain(cs.Class, map[string]string{"a": "b", "b": "a"}[nm])
				case "empty":
					exp = ""
				}
				got := seen[nm]
				if exp == "" && got == "\x00absent" {
					got = "" // an emptied cookie and no cookie are the same to the handler
				}
				if got != exp {
					o.violation(map[string]any{"check": "handler-saw-other-value", "prop": "C20", "case": cs, "name": nm, "presented": presented,
						"expected": fmt.Sprintf("%q", exp), "observed": fmt.Sprintf("%q", got), "isExcept": isExcept(nm)})
					return
				}
			}
		}
		if n%397 == 1 {
			o.sample(map[string]any{"case": cs, "variants_of_a": len(va), "variants_of_b": len(vb)})
		}
	})
	o.summary(map[string]any{"cases": n, "concrete_exchanges": nVariants, "with_tampered_or_foreign_value": nTamper, "violations": o.nV})
}

// TestC20Conc: the request-1 step of the specification (the handler sets cookies, the response carries exactly their
// ciphertexts) performed by 8 clients at once on ONE middleware instance, each with its own values: every client must receive
// the ciphertext of ITS value under ITS cookie names and nothing else.
func TestC20Conc(t *testing.T) {
	o := newOut(t)
	defer o.close()
	rawKey := make([]byte, 32)
	for i := range rawKey {
		rawKey[i] = byte(i*5 + 1)
	}
	app := fiber.New()
	app.Use(encryptcookie.New(encryptcookie.Config{Key: base64.StdEncoding.EncodeToString(rawKey)}))
	app.Get("/set", func(c fiber.Ctx) error {
		w := c.Get("X-W")
		c.Cookie(&fiber.Cookie{Name: "sid" + w, Value: "session-of-" + w + "-" + c.Get("X-I")})
		c.Cookie(&fiber.Cookie{Name: "cart" + w, Value: "cart-of-" + w + "-" + c.Get("X-I")})
		return c.SendStatus(200)
	})
	h := app.Handler()
	const workers, rounds = 8, 1500
	var wg sync.WaitGroup
	var mu sync.Mutex
	nReq := 0
	for w := 0; w < workers; w++ {
		wg.Add(1)
		go func(w int) {
			defer wg.Done()
			ws := strconv.Itoa(w)
			for i := 0; i < rounds; i++ {
				is := strconv.Itoa(i)
				rc := doReqH(h, "GET", "/set", "X-W", ws, "X-I", is)
				got := map[string]string{}
				rc.Response.Header.VisitAllCookie(func(k, v []byte) {
					var ck fasthttp.Cookie
					_ = ck.ParseBytes(v)
					got[string(k)] = string(ck.Value())
				})
				bad := ""
				if len(got) != 2 {
					bad = fmt.Sprintf("%d cookies in the response, the handler set 2", len(got))
				}
				for name, want := range map[string]string{"sid" + ws: "session-of-" + ws + "-" + is, "cart" + ws: "cart-of-" + ws + "-" + is} {
					if pt, ok := gcmOpen(rawKey, got[name]); !ok || pt != want {
						bad = fmt.Sprintf("cookie %s is not the ciphertext of this client's value (opens: %v, %q)", name, ok, pt)
					}
				}
				mu.Lock()
				nReq++
				mu.Unlock()
				if bad != "" {
					o.violation(map[string]any{"check": "concurrent-clients-mixed-up", "prop": "C20", "worker": w, "round": i, "observed": bad, "cookies": got})
					return
				}
			}
		}(w)
	}
	wg.Wait()
	o.summary(map[string]any{"requests": nReq, "workers": workers, "violations": o.nV})
}
