package harness

import (
	"bufio"
	"encoding/json"
	"fmt"
	"os"
	"strconv"
	"testing"
	"testing/synctest"
	"time"

	"github.com/gofiber/fiber/v3"
	"github.com/gofiber/fiber/v3/middleware/limiter"
	"github.com/gofiber/utils/v2"
	"github.com/valyala/fasthttp"
)

// ---------------------------------------------------------------------------------------------
// C13 backward conformance: all interleavings of concurrent requests through the real limiter over a
// gated storage, recorded as ndjson traces that TLC validates against spec/Limiter.tla.

type c13Req struct {
	Key  string
	Max  int
	HS   int
	Late bool // started only after all non-late requests finished (sequential probe)
}

type c13Conf struct {
	Alg        string `json:"alg"`
	SkipFailed bool   `json:"skipFailed"`
	SkipOK     bool   `json:"skipOK"`
	Exp        int    `json:"exp"`
}

func limiterApp(cf c13Conf, storage fiber.Storage, s *sched) fasthttp.RequestHandler {
	app := fiber.New()
	cfg := limiter.Config{
		Max:                    1,
		Expiration:             time.Duration(cf.Exp) * time.Second,
		Storage:                storage,
		SkipFailedRequests:     cf.SkipFailed,
		SkipSuccessfulRequests: cf.SkipOK,
		MaxFunc: func(c fiber.Ctx) int {
			n, _ := strconv.Atoi(c.Get("X-Max"))
			return n
		},
		KeyGenerator: func(c fiber.Ctx) string {
			k := c.Get("X-Key")
			if s != nil {
				mx, _ := strconv.Atoi(c.Get("X-Max"))
				hs, _ := strconv.Atoi(c.Get("X-HS"))
				s.gate("start", event{"ev": "start", "key": k, "max": mx, "hs": hs})
			}
			return k
		},
		LimitReached: func(c fiber.Ctx) error {
			if s != nil {
				ra, _ := strconv.Atoi(string(c.Response().Header.Peek("Retry-After")))
				s.gate("reject", event{"ev": "reject", "ra": ra})
			}
			return c.SendStatus(429)
		},
	}
	if cf.Alg == "sliding" {
		cfg.LimiterMiddleware = limiter.SlidingWindow{}
	} else {
		cfg.LimiterMiddleware = limiter.FixedWindow{}
	}
	app.Use(limiter.New(cfg))
	app.Get("/", func(c fiber.Ctx) error {
		if s != nil {
			s.gate("handler", event{"ev": "handler"})
		}
		hs, _ := strconv.Atoi(c.Get("X-HS"))
		return c.SendStatus(hs)
	})
	return app.Handler()
}

func c13Do(h fasthttp.RequestHandler, r c13Req) (int, string) {
	rc := doReqH(h, "GET", "/", "X-Key", r.Key, "X-Max", strconv.Itoa(r.Max), "X-HS", strconv.Itoa(r.HS))
	return rc.Response.StatusCode(), string(rc.Response.Header.Peek("Retry-After"))
}

func TestC13Sched(t *testing.T) {
	tracePath := os.Getenv("VERIF_TRACE")
	if tracePath == "" {
		t.Skip("VERIF_TRACE not set")
	}
	var cf c13Conf
	if err := json.Unmarshal([]byte(os.Getenv("VERIF_CONF")), &cf); err != nil {
		t.Fatal(err)
	}
	maxSched, _ := strconv.Atoi(os.Getenv("VERIF_MAXSCHED"))
	if maxSched == 0 {
		maxSched = 300
	}
	synctest.Test(t, func(t *testing.T) {
		utils.StartTimeStampUpdater()
		time.Sleep(500 * time.Millisecond)
		f, err := os.Create(tracePath)
		if err != nil {
			t.Fatal(err)
		}
		w := bufio.NewWriter(f)
		o := newOut(t)
		scenarios := [][]c13Req{
			{{Key: "k1", Max: 1, HS: 200}, {Key: "k1", Max: 1, HS: 200}, {Key: "k1", Max: 1, HS: 200, Late: true}},
			{{Key: "k1", Max: 2, HS: 500}, {Key: "k1", Max: 1, HS: 200}, {Key: "k1", Max: 1, HS: 200, Late: true}},
			{{Key: "k1", Max: 1, HS: 200}, {Key: "k2", Max: 1, HS: 500}, {Key: "k1", Max: 1, HS: 200, Late: true}},
		}
		if os.Getenv("VERIF_TIER") == "thorough" {
			scenarios = append(scenarios,
				[]c13Req{{Key: "k1", Max: 2, HS: 200}, {Key: "k1", Max: 2, HS: 500}, {Key: "k1", Max: 2, HS: 200}},
				[]c13Req{{Key: "k1", Max: 1, HS: 500}, {Key: "k1", Max: 1, HS: 500}, {Key: "k1", Max: 1, HS: 200, Late: true}, {Key: "k1", Max: 1, HS: 200, Late: true}},
			)
		}
		var nTraces, nEvents, nDeadlock, nTrunc, nOverlap int
		for si, sc := range scenarios {
			n, trunc := explore(func() *execCtl {
				s := newSched()
				st := newGatedStorage(s, func(_ string, raw []byte) event {
					m := msgpMap(raw)
					e := event{"curr": 0, "prev": 0, "exp": 0}
					if m != nil {
						e["curr"], e["prev"] = toInt(m["currHits"]), toInt(m["prevHits"])
						if x := toInt(m["exp"]); x != 0 {
							e["exp"] = x - int(utils.Timestamp()) // made relative to t0 below
							e["expAbs"] = x
						}
					}
					return e
				})
				t0 := int(st.t0)
				h := limiterApp(cf, st, s)
				for i, r := range sc {
					r := r
					s.spawn(i+1, func() { c13Do(h, r) })
				}
				ticks := 0
				ex := &execCtl{s: s}
				late := func(p *proc) bool { return sc[p.id-1].Late }
				ex.extra = func() []func() {
					// environment: one tick of Exp-1 .. only while nobody waits on a mutex (virtual time cannot advance then)
					for _, p := range s.procs {
						if p.state == psBlocked {
							return nil
						}
					}
					if ticks >= 1 {
						return nil
					}
					return []func(){func() {
						ticks++
						d := cf.Exp
						time.Sleep(time.Duration(d) * time.Second)
						s.log(event{"ev": "tick", "d": d, "p": 0})
					}}
				}
				ex.filter = func(p *proc) bool {
					if !late(p) {
						return true
					}
					for _, q := range s.procs {
						if !late(q) && q.state != psDone {
							return false
						}
					}
					return true
				}
				ex.done = func(deadlock bool, choices []int) {
					nTraces++
					if deadlock {
						nDeadlock++
					}
					fmt.Fprintln(w, `{"ev":"reset","p":0}`)
					nEvents++
					inCrit := map[int]bool{}
					for _, e := range s.events {
						if abs, ok := e["expAbs"]; ok {
							e["exp"] = abs.(int) - t0
							delete(e, "expAbs")
						}
						delete(e, "seq")
						delete(e, "t")
						if e["ev"] == "get" {
							inCrit[e["p"].(int)] = true
						}
						b, _ := json.Marshal(e)
						w.Write(b)
						w.WriteByte('\n')
						nEvents++
					}
					if len(inCrit) > 1 {
						nOverlap++
					}
					if deadlock {
						o.violation(map[string]any{"check": "deadlock", "prop": "C13", "conf": cf, "scenario": si, "choices": choices})
					}
				}
				return ex
			}, maxSched, 200)
			_ = n
			if trunc {
				nTrunc++
			}
		}
		w.Flush()
		f.Close()
		o.summary(map[string]any{"traces": nTraces, "events": nEvents, "deadlocks": nDeadlock, "scenarios_truncated": nTrunc, "transient_blocks_resolved_by_patience": rescuedByPatience,
			"traces_with_several_procs_in_storage": nOverlap, "violations": o.nV})
		os.Exit(0)
	})
}

// ---------------------------------------------------------------------------------------------
// C13 forward conformance: timed histories TLC simulated from Limiter.tla (one worker, Tick / requests)
// replayed sequentially under the virtual clock on the built-in memory storage and on an external storage.

type c13Hist struct {
	Ev     string `json:"ev"`
	Key    string `json:"key"`
	Max    int    `json:"max"`
	HS     int    `json:"hs"`
	Status int    `json:"status"`
	RA     int    `json:"ra"`
	Fuzzy  bool   `json:"fuzzy"`
	D      int    `json:"d"`
}

func TestC13Hist(t *testing.T) {
	if os.Getenv("VERIF_CASES") == "" {
		t.Skip("VERIF_CASES not set")
	}
	var cf c13Conf
	if err := json.Unmarshal([]byte(os.Getenv("VERIF_CONF")), &cf); err != nil {
		t.Fatal(err)
	}
	var hists [][]c13Hist
	readCases(t, "VERIF_CASES", func(line []byte) {
		var h struct {
			Hist []c13Hist `json:"hist"`
		}
		if err := json.Unmarshal(line, &h); err != nil {
			t.Fatalf("bad history: %v", err)
		}
		hists = append(hists, h.Hist)
	})
	synctest.Test(t, func(t *testing.T) {
		utils.StartTimeStampUpdater()
		time.Sleep(500 * time.Millisecond)
		o := newOut(t)
		// ONE middleware instance per storage kind; histories are separated by key prefix
		hMem := limiterApp(cf, nil, nil)
		ext := newGatedStorage(newSched(), nil) // scheduler without procs: gates pass straight through
		hExt := limiterApp(cf, ext, nil)
		var nReq, nFuzzy, n429, nBoundary, nGap int
		// requests served in the collector's gap: the hook runs in the collector's goroutine; gcOffset is how far the driver's
		// clock is past the collector's ticks (the store was created on the driver's own grid)
		var gapReq func()
		var gapDone bool
		var gapSt int
		var gapRA string
		var gcOffset time.Duration
		limiter.VerifMemoryGate(func(point string) {
			if point == "gc.scanned" && gapReq != nil {
				f := gapReq
				gapReq = nil
				f()
			}
		})
		for hi, hist := range hists {
			for _, storageKind := range []string{"memory", "external"} {
				h := hMem
				if storageKind == "external" {
					h = hExt
				}
				prefix := fmt.Sprintf("h%d-", hi)
				for step, e := range hist {
					if e.Ev == "tick" {
						// memory storage: every other request that follows a tick is served INSIDE the gap of the store's garbage
						// collector (between its scan and its sweep), which runs at that very second -- the collector must be
						// invisible (spec/MemoryStore.tla), wherever a request falls relative to it
						if storageKind == "memory" && step+1 < len(hist) && hist[step+1].Ev == "req" && (hi+step)%2 == 0 {
							nx := hist[step+1]
							time.Sleep(time.Duration(e.D)*time.Second - gcOffset - time.Millisecond)
							gapDone = false
							gapReq = func() {
								gapSt, gapRA = c13Do(h, c13Req{Key: prefix + nx.Key, Max: nx.Max, HS: nx.HS})
								gapDone = true
							}
							time.Sleep(2 * time.Millisecond)
							gapReq = nil
							gcOffset = time.Millisecond
						} else {
							time.Sleep(time.Duration(e.D) * time.Second)
						}
						continue
					}
					nReq++
					var st int
					var ra string
					if gapDone {
						st, ra, gapDone = gapSt, gapRA, false
						nGap++
					} else {
						st, ra = c13Do(h, c13Req{Key: prefix + e.Key, Max: e.Max, HS: e.HS})
					}
					if e.Status == 429 {
						n429++
					}
					raN, _ := strconv.Atoi(ra)
					ok := st == e.Status && (e.Status != 429 || raN == e.RA)
					if e.Fuzzy {
						nFuzzy++
						// exact-integer weight: the float computation may land on either side
						ok = ok || st == 429 || st == e.HS
					}
					if !ok {
						o.violation(map[string]any{"check": "history-step-differs", "prop": "C13", "conf": cf, "storage": storageKind, "history": hist, "step": step,
							"expected": map[string]any{"status": e.Status, "ra": e.RA}, "observed": map[string]any{"status": st, "ra": ra}})
						break
					}
					if nReq%7919 == 1 {
						o.sample(map[string]any{"conf": cf, "storage": storageKind, "history": hist})
					}
				}
				// leave the window: next history starts on fresh keys anyway
			}
			_ = nBoundary
		}
		o.summary(map[string]any{"histories": len(hists), "requests": nReq, "rejected_429": n429, "fuzzy_boundary": nFuzzy, "requests_served_in_the_collectors_gap": nGap, "violations": o.nV})
		os.Exit(0)
	})
}
