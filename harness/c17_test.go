package harness

import (
	"bufio"
	"encoding/json"
	"errors"
	"fmt"
	"os"
	"sort"
	"strconv"
	"strings"
	"testing"
	"time"

	"github.com/gofiber/fiber/v3"
	"github.com/gofiber/fiber/v3/middleware/idempotency"
)

// C17 backward conformance: all interleavings of duplicate / distinct-key requests through the real idempotency
// middleware with the real MemoryLock (behind a logging wrapper) and a gated storage with fault injection.

type c17Req struct {
	Key   string
	HErr  bool   // the downstream handler returns an error
	Fault string // "", "get1", "get2", "lock"
	Late  bool
	NoKey bool // the request carries no idempotency key
	Safe  bool // the request uses a safe method (GET) although it carries the key
}

func (r c17Req) bypass() bool { return r.NoKey || r.Safe }

// gatedLocker logs AFTER the real lock operation took effect; the real MemoryLock itself is not gated, a goroutine
// blocked inside it is recognised by the scheduler from its wait reason.
type gatedLocker struct {
	s     *sched
	inner idempotency.Locker
	fault func(key string) bool
}

func (g *gatedLocker) Lock(key string) error {
	if g.fault != nil && g.fault(key) {
		g.s.gate("lock", event{"ev": "lockfail", "key": key})
		return errors.New("injected lock fault")
	}
	if err := g.inner.Lock(key); err != nil {
		return err
	}
	g.s.gate("lock", event{"ev": "lock", "key": key})
	return nil
}

func (g *gatedLocker) Unlock(key string) error {
	// the release is logged BEFORE it takes effect (afterwards another request may already hold and log the lock)
	if p := g.s.procID(); p != 0 {
		g.s.log(event{"ev": "unlock", "key": key, "p": p})
	}
	err := g.inner.Unlock(key)
	g.s.gate("unlock", nil)
	return err
}

type c17Resp struct {
	Status  int
	Body    string
	Headers string
}

func c17Scenarios() [][]c17Req {
	return [][]c17Req{
		{{Key: "k1"}, {Key: "k1"}, {Key: "k1", Late: true}},
		{{Key: "k1", HErr: true}, {Key: "k1"}, {Key: "k1"}},
		{{Key: "k1"}, {Key: "k2"}, {Key: "k1"}},
		{{Key: "k1"}, {Key: "k1", Fault: "lock"}, {Key: "k1"}},
		{{Key: "k1"}, {Key: "k1", Fault: "get1"}, {Key: "k1", Fault: "get2"}},
		{{Key: "k1", HErr: true}, {Key: "k1", HErr: true}, {Key: "k1"}, {Key: "k1", Late: true}},
		{{Key: "k1"}, {Key: "k1"}, {Key: "k2"}, {Key: "k2", HErr: true}},
		{{Key: "k1"}, {Key: "k1", NoKey: true}, {Key: "k1", Safe: true}, {Key: "k1", Late: true}},
		{{Key: "k1", HErr: true}, {Key: "k1", Safe: true, HErr: true}, {Key: "k1", NoKey: true}, {Key: "k1", Safe: true, Late: true}},
	}
}

func TestC17Sched(t *testing.T) {
	tracePath := os.Getenv("VERIF_TRACE")
	if tracePath == "" {
		t.Skip("VERIF_TRACE not set")
	}
	maxSched, _ := strconv.Atoi(os.Getenv("VERIF_MAXSCHED"))
	scIdx, _ := strconv.Atoi(os.Getenv("VERIF_SCENARIO"))
	var resume []int
	if r := os.Getenv("VERIF_RESUME"); r != "" {
		_ = json.Unmarshal([]byte(r), &resume)
	}
	f, _ := os.Create(tracePath)
	w := bufio.NewWriter(f)
	o := newOut(t)
	sc := c17Scenarios()[scIdx]
	var nTraces, nEvents, nDeadlock, nDup int
	newExec := func() *execCtl {
		s := newSched()
		getCount := map[int]int{}
		st := newGatedStorage(s, func(_ string, raw []byte) event { return event{"present": len(raw) != 0} })
		st.fault = func(op, _ string) error {
			if op != "get" {
				return nil
			}
			p := s.procID()
			if p == 0 {
				return nil
			}
			getCount[p]++ // only touched by the one goroutine the scheduler lets run
			if (sc[p-1].Fault == "get1" && getCount[p] == 1) || (sc[p-1].Fault == "get2" && getCount[p] == 2) {
				return errInjected
			}
			return nil
		}
		lk := &gatedLocker{s: s, inner: idempotency.NewMemoryLock(), fault: func(string) bool {
			p := s.procID()
			return p != 0 && sc[p-1].Fault == "lock"
		}}
		app := fiber.New()
		app.Use(func(c fiber.Ctx) error {
			p := s.procID()
			s.gate("start", event{"ev": "start", "key": strings.Repeat(sc[p-1].Key, 18), "herr": sc[p-1].HErr, "fault": sc[p-1].Fault, "byp": sc[p-1].bypass()})
			return c.Next()
		})
		app.Use(idempotency.New(idempotency.Config{Lock: lk, Storage: st, Lifetime: time.Hour,
			// names as a configuration file would spell them: header names are case-insensitive
			KeepResponseHeaders: []string{"x-exec", "X-MULTI", "Set-Cookie", "X-only-1", "x-ONLY-2", "X-Only-3", "x-only-4", "X-ONLY-5"}}))
		app.Add([]string{"POST", "GET"}, "/", func(c fiber.Ctx) error {
			p := s.procID()
			s.gate("handler", event{"ev": "handler"})
			if sc[p-1].HErr {
				return fiber.NewError(503, "downstream failed")
			}
			c.Set("X-Exec", strconv.Itoa(p))
			c.Response().Header.Add("X-Multi", "one, uno")
			c.Response().Header.Add("X-Multi", "two")
			c.Set("X-Dropped", "not kept")
			c.Set("X-Only-"+strconv.Itoa(p), "1") // a header name no other execution sends
			c.Cookie(&fiber.Cookie{Name: "sid", Value: "v" + strconv.Itoa(p)})
			if p%2 == 0 {
				return c.SendStatus(204) // empty body
			}
			return c.Status(201).SendString("executed by " + strconv.Itoa(p))
		})
		h := app.Handler()
		resps := map[int]c17Resp{}
		for i, r := range sc {
			r, id := r, i+1
			s.spawn(id, func() {
				method, hdr := "POST", []string{"X-Idempotency-Key", strings.Repeat(r.Key, 18)} // keys must be 36 chars
				if r.Safe {
					method = "GET"
				}
				if r.NoKey {
					hdr = nil
				}
				rc := doReqH(h, method, "/", hdr...)
				resp := c17Resp{Status: rc.Response.StatusCode(), Body: string(rc.Response.Body())}
				var hs []string
				only := []int{}
				rc.Response.Header.VisitAll(func(k, v []byte) {
					switch string(k) {
					case "X-Exec", "X-Multi", "Set-Cookie":
						hs = append(hs, string(k)+"="+string(v))
					}
					if n, err := strconv.Atoi(strings.TrimPrefix(string(k), "X-Only-")); err == nil && strings.HasPrefix(string(k), "X-Only-") {
						hs = append(hs, string(k)+"="+string(v))
						only = append(only, n)
					}
				})
				sort.Strings(hs)
				sort.Ints(only)
				resp.Headers = strings.Join(hs, "|")
				kind, exec := "error", 0
				if resp.Status < 500 {
					exec, _ = strconv.Atoi(string(rc.Response.Header.Peek("X-Exec")))
					kind = "cached"
					if exec == id {
						kind = "executed"
					}
				}
				s.mu.Lock()
				resps[id] = resp
				s.mu.Unlock()
				s.log(event{"ev": "end", "p": id, "kind": kind, "exec": exec, "status": resp.Status, "only": only})
			})
		}
		ex := &execCtl{s: s}
		late := func(p *proc) bool { return sc[p.id-1].Late }
		ex.filter = func(p *proc) bool {
			if !late(p) {
				return true
			}
			for _, q := range s.procs {
				if !late(q) && q.state != psDone {
					return false
				}
			}
			return true
		}
		ex.done = func(deadlock bool, choices []int) {
			nTraces++
			fmt.Fprintln(w, `{"ev":"reset","p":0}`)
			nEvents++
			for _, e := range s.events {
				delete(e, "seq")
				delete(e, "t")
				if k, ok := e["key"].(string); ok && len(k) >= 2 {
					e["key"] = k[:2]
				}
				b, _ := json.Marshal(e)
				w.Write(b)
				w.WriteByte('\n')
				nEvents++
			}
			if deadlock {
				nDeadlock++
				o.violation(map[string]any{"check": "deadlock", "prop": "C17", "scenario": scIdx, "choices": choices, "trace": s.events})
				return
			}
			// every answered duplicate carries byte-for-byte the response of the execution (status, body, kept headers)
			byKey := map[string][]int{}
			for i, r := range sc {
				if r.bypass() { // unaffected by the key: must carry its OWN execution
					if want := !r.HErr; want != (resps[i+1].Status < 500 && strings.Contains(resps[i+1].Headers, "X-Exec="+strconv.Itoa(i+1))) {
						o.violation(map[string]any{"check": "keyless-or-safe-request-affected", "prop": "C17", "scenario": scIdx, "choices": choices, "request": i + 1,
							"response": resps[i+1], "trace": s.events})
					}
					continue
				}
				if resps[i+1].Status < 500 {
					byKey[r.Key] = append(byKey[r.Key], i+1)
				}
			}
			for k, ids := range byKey {
				if len(ids) > 1 {
					nDup++
				}
				for _, id := range ids[1:] {
					if resps[id] != resps[ids[0]] {
						o.violation(map[string]any{"check": "duplicate-response-differs", "prop": "C17", "scenario": scIdx, "key": k, "choices": choices,
							"first": resps[ids[0]], "other": resps[id], "trace": s.events})
						break
					}
				}
			}
		}
		return ex
	}
	_, next, trunc := exploreFrom(newExec, resume, maxSched, 400)
	if nr, _ := strconv.Atoi(os.Getenv("VERIF_RANDOM_SCHED")); nr > 0 && next != nil {
		seed, _ := strconv.Atoi(os.Getenv("VERIF_SEED"))
		exploreRandom(newExec, nr, uint64(seed)+uint64(scIdx)*7919, 400)
	}
	w.Flush()
	f.Close()
	o.summary(map[string]any{"traces": nTraces, "events": nEvents, "deadlocks": nDeadlock, "keys_answered_more_than_once": nDup, "truncated": trunc, "transient_blocks_resolved_by_patience": rescuedByPatience, "next": next, "violations": o.nV})
}
