package harness

import (
	"testing"

	"github.com/gofiber/fiber/v3"
	"github.com/valyala/fasthttp"
)

func TestSmoke(t *testing.T) {
	app := fiber.New()
	app.Get("/a", func(c fiber.Ctx) error { return c.SendString("ok") })
	h := app.Handler()
	var rc fasthttp.RequestCtx
	rc.Request.Header.SetMethod("GET")
	rc.Request.SetRequestURI("/a")
	h(&rc)
	if rc.Response.StatusCode() != 200 {
		t.Fatal(rc.Response.StatusCode())
	}
}
