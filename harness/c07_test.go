package harness

import (
	"bufio"
	"bytes"
	"encoding/json"
	"fmt"
	"io"
	"net"
	"net/url"
	"os"
	"runtime"
	"sort"
	"strconv"
	"strings"
	"testing"
	"time"

	"github.com/gofiber/fiber/v3"
	"github.com/valyala/fasthttp/fasthttputil"
)

// C07: the connection scenarios of spec/Wire.tla as raw bytes over an in-memory connection to a real server: request classes
// (malformed, oversized, hostile header values) with the prescribed status and connection fate, and response helpers called
// with hostile arguments; every response is parsed by a STRICT parser written here (no lenient library in between).

type strictResp struct {
	Status  int
	Headers [][2]string
	Body    []byte
	Err     string
}

func isTokenChar(b byte) bool {
	return b > 0x20 && b < 0x7f && !strings.ContainsRune(`()<>@,;:\"/[]?={}`, rune(b))
}

// readStrict parses one HTTP/1.1 response: exact CRLF line ends, token header names, no control bytes in values,
// body delimited by Content-Length.
func readStrict(br *bufio.Reader) (*strictResp, error) {
	r := &strictResp{}
	line, err := br.ReadBytes('\n')
	if err != nil {
		return nil, err
	}
	bad := func(f string, a ...any) (*strictResp, error) { r.Err = fmt.Sprintf(f, a...); return r, nil }
	if !bytes.HasSuffix(line, []byte("\r\n")) || !bytes.HasPrefix(line, []byte("HTTP/1.1 ")) || len(line) < 14 {
		return bad("bad status line %q", line)
	}
	r.Status, err = strconv.Atoi(string(line[9:12]))
	if err != nil {
		return bad("bad status code %q", line)
	}
	cl := -1
	for {
		line, err = br.ReadBytes('\n')
		if err != nil {
			return bad("header section cut short: %v", err)
		}
		if bytes.Equal(line, []byte("\r\n")) {
			break
		}
		if !bytes.HasSuffix(line, []byte("\r\n")) {
			return bad("header line without CRLF %q", line)
		}
		line = line[:len(line)-2]
		i := bytes.IndexByte(line, ':')
		if i <= 0 {
			return bad("header line without a name %q", line)
		}
		for _, b := range line[:i] {
			if !isTokenChar(b) {
				return bad("header name is not a token %q", line[:i])
			}
		}
		val := bytes.TrimSpace(line[i+1:])
		for _, b := range val {
			if b == '\r' || b == '\n' || b == 0 { // RFC 9110 5.5: invalid and dangerous in a field value
				return bad("byte %#x in the value of %s", b, line[:i])
			}
		}
		r.Headers = append(r.Headers, [2]string{string(line[:i]), string(val)})
		if strings.EqualFold(string(line[:i]), "Content-Length") {
			cl, err = strconv.Atoi(string(val))
			if err != nil {
				return bad("bad Content-Length %q", val)
			}
		}
	}
	if cl > 0 {
		r.Body = make([]byte, cl)
		if _, err := io.ReadFull(br, r.Body); err != nil {
			return bad("body shorter than Content-Length: %v", err)
		}
	}
	return r, nil
}

func c07Arg(class string) string {
	switch class {
	case "cr":
		return "a\rInjected: 1"
	case "lf":
		return "a\nInjected: 1"
	case "crlf":
		return "a\r\nInjected: 1"
	case "crlfcrlf":
		return "a\r\n\r\nEARLYBODY"
	case "nul":
		return "a\x00b"
	case "utf8crlf":
		return "r\u00e9sum\u00e9\r\nInjected: 1"
	case "long":
		return strings.Repeat("L", 6000)
	case "len266": // lengths whose big-endian bytes contain 0x0A / 0x0D: they are bytes of a length-prefixed encoding
		return strings.Repeat("m", 266)
	case "len269":
		return strings.Repeat("m", 269)
	case "len2570":
		return strings.Repeat("m", 2570)
	case "len13":
		return strings.Repeat("m", 13)
	}
	return "plainvalue"
}

func c07Request(class string) []byte {
	switch class {
	case "unknownmethod":
		return []byte("PURGE /ok HTTP/1.1\r\nHost: w.test\r\n\r\n")
	case "badmethodbytes":
		return []byte("G\x01T /ok HTTP/1.1\r\nHost: w.test\r\n\r\n")
	case "spaceintarget":
		return []byte("GET /o k HTTP/1.1\r\nHost: w.test\r\n\r\n")
	case "noversion":
		return []byte("GET /ok\r\nHost: w.test\r\n\r\n")
	case "clabc":
		return []byte("POST /ok HTTP/1.1\r\nHost: w.test\r\nContent-Length: abc\r\n\r\nxyz")
	case "clneg":
		return []byte("POST /ok HTTP/1.1\r\nHost: w.test\r\nContent-Length: -5\r\n\r\nxyz")
	case "dupcl":
		return []byte("POST /ok HTTP/1.1\r\nHost: w.test\r\nContent-Length: 3\r\nContent-Length: 5\r\n\r\nxyzuv")
	case "badchunk":
		return []byte("POST /ok HTTP/1.1\r\nHost: w.test\r\nTransfer-Encoding: chunked\r\n\r\nZZ\r\nxyz\r\n0\r\n\r\n")
	case "hugeheader":
		return []byte("GET /ok HTTP/1.1\r\nHost: w.test\r\nX-Big: " + strings.Repeat("h", 9000) + "\r\n\r\n")
	case "hugetarget":
		return []byte("GET /" + strings.Repeat("t", 9000) + " HTTP/1.1\r\nHost: w.test\r\n\r\n")
	case "bodytoolarge":
		return []byte("POST /ok HTTP/1.1\r\nHost: w.test\r\nContent-Length: 20000\r\n\r\n" + strings.Repeat("b", 20000))
	case "hostileheaders":
		return []byte("POST /ok HTTP/1.1\r\nHost: w.test\r\nRange: bytes=99999999999999999999-,-,5-1,abc\r\nAccept: ;;;q=,*/*;q=2,text/html;q\r\n" +
			"Accept-Encoding: br;\r\nAccept-Language: ,,;q=x\r\nCookie: fiber_flash=\xdd\xff\xff\xff\xff; a=; =b; ;;\r\nContent-Encoding: gzip, br, zstd, deflate\r\n" +
			"X-Forwarded-For: 1.2.3.4.5, ::::, " + strings.Repeat("9", 300) + "\r\nContent-Type: multipart/form-data; boundary=\r\nContent-Length: 10\r\n\r\nnot-gzip!!")
	case "hostileframing":
		return []byte("POST /ok HTTP/1.1\r\nHost: w.test\r\nTransfer-Encoding: gzip\r\n\r\n")
	case "removedstandard":
		return []byte("DELETE /ok HTTP/1.1\r\nHost: w.test\r\n\r\n")
	case "absoluteuri":
		return []byte("GET http://w.test/ok HTTP/1.1\r\nHost: w.test\r\n\r\n")
	case "multipart":
		return []byte("POST /ok HTTP/1.1\r\nHost: w.test\r\nContent-Type: multipart/form-data; boundary=XX\r\nContent-Length: 91\r\n\r\n" +
			"--XX\r\nContent-Disposition: form-data; name=\"f\"; filename=\"a.txt\"\r\n\r\nDATA\r\n--XX--\r\n" + "        ")
	case "range":
		return []byte("GET /ok HTTP/1.1\r\nHost: w.test\r\nRange: bytes=0-10, 20-30, -5\r\nIf-None-Match: W/\"abc\", \"def\"\r\nCache-Control: no-cache\r\nX-Forwarded-For: 10.0.0.1, 2001:db8::1\r\nX-Forwarded-Host: a.b.c.test\r\n\r\n")
	case "accept":
		return []byte("GET /ok?x=1&y[]=2&z[a]=3 HTTP/1.1\r\nHost: sub.w.test\r\nAccept: text/html;q=0.8, application/json;v=1;q=0.9, */*;q=0.1\r\nAccept-Encoding: gzip;q=1.0, br\r\nAccept-Language: en-US,en;q=0.5\r\nAccept-Charset: utf-8, iso-8859-1;q=0.5\r\nCookie: a=b; fiber_flash=\x91\x82\xa3key\xa1k\xa5value\xa1v\r\n\r\n")
	}
	return []byte("GET /ok HTTP/1.1\r\nHost: w.test\r\n\r\n")
}

// c07Hostile: concrete members of the request class "hostileheaders" -- one header (or body framing) set to one hostile value,
// everything else benign.  The specification says of all of them: the handler runs, 200, the connection stays usable.
func c07Hostile(class string) [][]byte {
	tbl := map[string][]string{
		"Range": {"bytes=", "bytes=-", "bytes=--", "bytes=a-b", "bytes=1-0", "bytes=0-0,", "=0-1", "bytes 0-1", "bytes=0-1,,", "bytes=99999999999999999999-1",
			"bytes=-99999999999999999999", "bytes=0--1", "bytes=-0", "bytes=5-", "bytes=-5", "bytes=0-999999", "bytes=1000-2000", "items=0-1", "bytes=0-1=2", ",", "bytes=,-",
			"bytes= 0 - 1", "bytes=0-1-2", "bytes=\t0-1", "BYTES=0-1", "bytes=0x1-0x2", "bytes=+1-+2", "bytes=1e3-"},
		"Accept": {"", ";", ";;", ";q", ";q=", "text/html;", "text/html;q", "text/html;q=", "text/html;q=x", "text/html;q=-1", "text/html;q=1e9", "text/html;=", "text/html;a",
			"text/html;a=\"", "text/html;a=\"\\", ",", ",,,", "*/*;q=0,", "/", "text/", "/html", "*", "text/html;q=0.5;q=0.6", "text/html ; q = 0.5", "a/b;c=d;e=\"f,g\";q=0.1,",
			"text/html;q=0." + strings.Repeat("9", 400), strings.Repeat("a/b,", 300), strings.Repeat(";", 500)},
		"Accept-Encoding": {"br;", "gzip;q", "gzip;q=", ";", ",", "*;q=0", "gzip;;q=1", "identity;q=0,*;q=0", "gzip, , br", "\"gzip\"", "gzip;q=1.0000000"},
		"Accept-Language": {",,;q=x", "en-", "-", "en--US", "*-*", "en;q", "en_US", "i-klingon;q=0.5,", strings.Repeat("en-", 200)},
		"Accept-Charset":  {"utf-8;", ";q=0", "*;", "utf-8;q=0.0000", "\x80"},
		"Cookie": {"fiber_flash=\xdd\xff\xff\xff\xff", "fiber_flash=\x91", "fiber_flash=\x91\x84", "fiber_flash=\xdc\xff\xff", "fiber_flash=\x91\x84\xa3key\xda\xff\xff",
			"fiber_flash=\xc1", "fiber_flash=", "fiber_flash", "a=; =b; ;;", "=", ";", "a=b;;;c", "a=\"b", "a=b; a=c; a=d", strings.Repeat("k=v; ", 500), "fiber_flash=" + strings.Repeat("\x91", 2000)},
		"Content-Encoding": {"gzip, br, zstd, deflate", "gzip", "br", "zstd", "deflate", "gzip,gzip,gzip,gzip,gzip,gzip,gzip,gzip,gzip,gzip", ",", "unknown", "identity", "GZIP", "gzip;q=1"},
		"X-Forwarded-For": {"1.2.3.4.5", "::::", strings.Repeat("9", 300), ",", ",,,", " , ", "1.2.3.4,", ",1.2.3.4", "[::1]:80", "1.2.3.4:80", "::ffff:1.2.3.4", "fe80::1%eth0", "unknown", "\"1.2.3.4\"",
			strings.Repeat("1.1.1.1,", 400)},
		"X-Forwarded-Host":  {"", ".", "..", "a..b", strings.Repeat("a.", 300), "host:port:port", "[::1", "ho st"},
		"X-Forwarded-Proto": {"", "https,http", "HTTPS", "javascript", strings.Repeat("s", 500)},
		"If-None-Match":     {"", "*", "W/", "W/\"", "\"", "\"\"", ",", "W/\"a\",,\"b\"", strings.Repeat("\"x\",", 300), "\"unterminated"},
		"If-Modified-Since": {"", "yesterday", "Mon, 99 Jan 9999 99:99:99 GMT", strings.Repeat("1", 200)},
		// (sent together with If-None-Match, as a revalidating client does: Fresh / Stale look at Cache-Control only then)
		"Cache-Control": {"", "no-cache", "NO-CACHE", "no-cache=", ",no-cache", "no-cachex", strings.Repeat("a,", 300), "no-cachex, no-cachey", "xno-cache,yno-cache",
			"no-cache=\"a\", no-cache=\"b\"", "x-no-cache, no-cache", "no-cache, no-cache", "max-age=0, no-cache", "no-cacheno-cacheno-cache", "private, no-cache=\"set-cookie\", no-cachez, no-cache",
			strings.Repeat("no-cachex,", 200), "no-cache\t,\tno-cache", "=no-cache=,=no-cache="},
		"Content-Type": {"multipart/form-data", "multipart/form-data;", "multipart/form-data; boundary", "multipart/form-data; boundary=", "multipart/form-data; boundary=\"", ";",
			"application/x-www-form-urlencoded;;;", "application/json; charset", "/", strings.Repeat("a", 600)},
		"Host":              {"", ".", "a..b.c.d.e", strings.Repeat("a.", 120) + "test", "[::1]", "[::1", "h:1:2", "xn--", "a_b.test", "1.2.3.4", "a.b.c.d.e.f.g.h.i.j.k.l.m.n.test"},
		"Transfer-Encoding": {"identity", "chunked, chunked", "gzip, chunked", "Chunked"},
	}
	framing := map[string]bool{"Host": true, "Transfer-Encoding": true, "Content-Type": true}
	var names []string
	for k := range tbl {
		if framing[k] == (class == "hostileframing") {
			names = append(names, k)
		}
	}
	sort.Strings(names)
	var out [][]byte
	for _, h := range names {
		for _, v := range tbl[h] {
			if strings.ContainsAny(v, "\r\n") {
				continue
			}
			var b bytes.Buffer
			b.WriteString("POST /ok?x=1 HTTP/1.1\r\n")
			if h != "Host" {
				b.WriteString("Host: sub.w.test\r\n")
			}
			if h == "Transfer-Encoding" {
				b.WriteString(h + ": " + v + "\r\n\r\n")
				if strings.Contains(strings.ToLower(v), "chunked") { // otherwise the server takes the request to have no body
					b.WriteString("4\r\nBODY\r\n0\r\n\r\n")
				}
				out = append(out, b.Bytes())
				continue
			}
			if h == "Cache-Control" {
				b.WriteString("If-None-Match: \"v1\"\r\n")
			}
			b.WriteString(h + ": " + v + "\r\nContent-Length: 10\r\n\r\nnot-gzip!!")
			out = append(out, b.Bytes())
		}
	}
	return out
}

func TestC07(t *testing.T) {
	o := newOut(t)
	defer o.close()
	dlFile := t.TempDir() + "/dl.txt"
	if err := os.WriteFile(dlFile, []byte("DOWNLOADED"), 0o600); err != nil {
		t.Fatal(err)
	}
	mk := func(kind string) *fasthttputil.InmemoryListener {
		cfg := fiber.Config{BodyLimit: 8 * 1024, ReadBufferSize: 4096}
		switch kind {
		case "immutable":
			cfg.Immutable = true
		case "methods":
			cfg.RequestMethods = []string{"GET", "HEAD", "POST"}
		case "unescape":
			cfg.UnescapePath = true
		}
		app := fiber.New(cfg)
		if kind == "custom" {
			app.NewCtxFunc(func(a *fiber.App) fiber.CustomCtx { return &vCustomCtx{DefaultCtx: *fiber.NewDefaultCtx(a)} })
		}
		app.Add(app.Config().RequestMethods, "/ok", func(c fiber.Ctx) error {
			// every accessor a handler is likely to call on hostile input
			_, _ = c.Range(1000)
			_ = c.Accepts("text/html", "json")
			_ = c.AcceptsEncodings("gzip", "br")
			_ = c.AcceptsLanguages("en", "de")
			_ = c.AcceptsCharsets("utf-8")
			_ = c.Body()
			_ = c.IPs()
			_ = c.Cookies("a")
			_, _ = c.MultipartForm()
			_ = c.Redirect().Messages()
			_ = c.Fresh()
			_ = c.Subdomains()
			_ = c.Queries()
			_, _, _ = c.Host(), c.Hostname(), c.Scheme() // Port() panics by design on a non-TCP peer such as this in-memory connection
			_, _, _, _ = c.IP(), c.IsFromLocal(), c.IsProxyTrusted(), c.Secure()
			_, _, _, _ = c.OriginalURL(), c.BaseURL(), c.Path(), c.Protocol()
			_, _, _ = c.XHR(), c.Stale(), c.Is("json")
			_, _ = c.BodyRaw(), c.GetReqHeaders()
			_, _ = c.FormValue("f"), c.Query("x")
			_, _ = c.FormFile("f")
			_ = fiber.Query[int](c, "x")
			_ = fiber.Params[int](c, "nope")
			_ = c.Redirect().OldInputs()
			_ = c.String()
			var bound struct {
				X  int      `query:"x" header:"X-Forwarded-For" cookie:"a" form:"f"`
				Ys []string `query:"y" header:"Accept" cookie:"fiber_flash" form:"g"`
			}
			_ = c.Bind().Query(&bound)
			_ = c.Bind().Header(&bound)
			_ = c.Bind().Cookie(&bound)
			_ = c.Bind().Form(&bound)
			_ = c.Bind().Body(&bound)
			h, a := c.Get("X-Helper"), c07Arg(c.Get("X-Arg"))
			switch h {
			case "set":
				c.Set("X-Custom", a)
			case "append":
				c.Append("X-Custom", "first", a)
			case "vary":
				c.Vary(a)
			case "location":
				c.Location(a)
			case "redirect":
				return c.Redirect().To("/" + a)
			case "cookievalue":
				c.Cookie(&fiber.Cookie{Name: "ck", Value: a})
			case "cookiepath":
				c.Cookie(&fiber.Cookie{Name: "ck", Value: "v", Path: "/" + a})
			case "cookiedomain":
				c.Cookie(&fiber.Cookie{Name: "ck", Value: "v", Domain: a})
			case "links":
				c.Links("http://l.test/"+a, "next")
			case "typecharset":
				c.Type("html", a)
			case "attachment":
				c.Attachment(a + ".txt")
			case "download":
				return c.Download(dlFile, a+".txt")
			case "jsonp":
				return c.JSONP(fiber.Map{"k": "v"}, a)
			case "format":
				return c.Format(fiber.ResFmt{MediaType: "text/plain", Handler: func(c fiber.Ctx) error { return c.SendString(a) }})
			case "flash":
				return c.Redirect().With("k", a).To("/next")
			case "flashlevel":
				// every byte value a level can take is a byte of the cookie; two messages so that both spellings of a count occur
				return c.Redirect().With("k", a, 10).With("l", a, 13).With("m", a, 0x7f).To("/next")
			case "flashinput":
				// what the client sent comes back in the cookie
				return c.Redirect().WithInput().To("/next")
			case "sendstring":
				return c.SendString(a)
			}
			return c.SendString("BODY")
		})
		app.Get("/burst/sendfile/:n", func(c fiber.Ctx) error {
			n, _ := strconv.Atoi(c.Params("n"))
			return c.SendFile(dlFile, fiber.SendFile{MaxAge: 1000 + n})
		})
		app.Get("/burst/download/:n", func(c fiber.Ctx) error {
			n, _ := strconv.Atoi(c.Params("n"))
			return c.SendFile(dlFile, fiber.SendFile{MaxAge: 500000 + n, Download: true})
		})
		ln := fasthttputil.NewInmemoryListener()
		go func() { _ = app.Listener(ln, fiber.ListenConfig{DisableStartupMessage: true}) }()
		return ln
	}
	lns := map[string]*fasthttputil.InmemoryListener{}
	for _, k := range []string{"default", "custom", "immutable", "methods", "unescape"} {
		lns[k] = mk(k)
	}
	respDeadline := 15 * time.Second
	var n, nHostileArg, nMalformed, nHostileVariants, nBurst int
	readCases(t, "VERIF_CASES", func(line []byte) {
		var cs struct {
			First  string `json:"first"`
			Helper string `json:"helper"`
			Arg    string `json:"arg"`
			Ctx    string `json:"ctx"`
			Fate   []struct {
				Status int `json:"status"`
				Second int `json:"second"`
			} `json:"fate"`
		}
		if err := json.Unmarshal(line, &cs); err != nil {
			t.Fatalf("bad case %v", err)
		}
		n++
		req := c07Request(cs.First)
		if cs.First == "ok" && cs.Helper != "" {
			req = []byte("GET /ok HTTP/1.1\r\nHost: w.test\r\nX-Helper: " + cs.Helper + "\r\nX-Arg: " + cs.Arg + "\r\n\r\n")
			if cs.Helper == "flashinput" {
				// the text comes from the client: as a query parameter, percent-encoded
				text := c07Arg(cs.Arg)
				if len(text) > 3000 {
					text = text[:3000] // the request line has to fit the read buffer (4096)
				}
				req = []byte("GET /ok?old=" + url.QueryEscape(text) + " HTTP/1.1\r\nHost: w.test\r\nX-Helper: " + cs.Helper + "\r\nX-Arg: " + cs.Arg + "\r\n\r\n")
			}
			if cs.Arg != "plain" {
				nHostileArg++
			}
		}
		if cs.First != "ok" && cs.First != "absoluteuri" {
			nMalformed++
		}
		var statuses []int
		for _, f := range cs.Fate {
			statuses = append(statuses, f.Status)
		}
		variant := ""
		fail := func(what string, exp, got any) {
			o.violation(map[string]any{"check": "wire-" + what, "prop": "C07", "first": cs.First, "helper": cs.Helper, "arg": cs.Arg, "ctx": cs.Ctx, "variant": variant, "expected": exp, "observed": got})
		}
		exchange := func(req []byte) {
			var ms1, ms2 runtime.MemStats
			runtime.ReadMemStats(&ms1)
			conn, err := lns[cs.Ctx].Dial()
			if err != nil {
				t.Fatal(err)
			}
			defer conn.Close()
			_ = conn.SetDeadline(time.Now().Add(respDeadline)) // generous: only a wedged server runs into it
			go func() { _, _ = conn.Write(req) }()             // large requests must not block on the pipe
			br := bufio.NewReader(conn)
			resp, err := readStrict(br)
			runtime.ReadMemStats(&ms2)
			if err != nil {
				fail("no-response", statuses, err.Error())
				respDeadline = time.Second // a server that wedges on many inputs must not make the check crawl
				return
			}
			if resp.Err != "" {
				fail("response-not-well-formed", "a well-formed HTTP/1.1 response", resp.Err)
				return
			}
			okStatus, second := false, 0
			for _, f := range cs.Fate {
				if resp.Status == f.Status {
					okStatus, second = true, f.Second
				}
			}
			if cs.First == "ok" && (cs.Helper == "redirect" || cs.Helper == "flash" || cs.Helper == "flashlevel" || cs.Helper == "flashinput") {
				okStatus, second = resp.Status == 303 || resp.Status == 302, 200 // the redirect helpers set their own status
			}
			if !okStatus {
				fail("status", statuses, resp.Status)
				return
			}
			for _, hv := range resp.Headers {
				if strings.EqualFold(hv[0], "Connection") && strings.EqualFold(hv[1], "close") {
					second = 0 // the server announced that it closes: then nothing more may be served
				}
			}
			if alloc := ms2.TotalAlloc - ms1.TotalAlloc; alloc > 4<<20+64*uint64(len(req)) {
				fail("allocation-out-of-proportion", "<= 4MiB + 64 x request size", alloc)
				return
			}
			for _, hv := range resp.Headers {
				if strings.EqualFold(hv[0], "Injected") {
					fail("helper-argument-added-a-header-line", "no header named Injected", hv)
					return
				}
			}
			if bytes.HasPrefix(resp.Body, []byte("EARLYBODY")) || bytes.Contains(resp.Body, []byte("Injected: 1\r\n")) && cs.Helper != "sendstring" && cs.Helper != "format" && cs.Helper != "jsonp" {
				fail("helper-argument-started-the-body-early", "the handler's body", string(resp.Body[:min(60, len(resp.Body))]))
				return
			}
			// the second request on the same connection
			if _, err := conn.Write([]byte("GET /ok HTTP/1.1\r\nHost: w.test\r\n\r\n")); err == nil {
				resp2, err2 := readStrict(br)
				got2 := 0
				if err2 == nil && resp2.Err == "" {
					got2 = resp2.Status
				}
				if got2 != second {
					fail("connection-fate", second, got2)
					return
				}
			} else if second != 0 {
				fail("connection-fate", second, "write failed: "+err.Error())
				return
			}
			if n%53 == 1 && variant == "" {
				o.sample(map[string]any{"first": cs.First, "helper": cs.Helper, "arg": cs.Arg, "ctx": cs.Ctx, "status": resp.Status, "headers": resp.Headers})
			}
		}
		if cs.First == "burst" {
			// several rounds of 32 connections at once, one request each, all for a target whose options nobody used before;
			// the connections are opened first and the requests written together
			nBurst++
			const k, rounds = 32, 6
			var bad []string
			for round := 0; round < rounds && len(bad) == 0; round++ {
				target := "/ok"
				if cs.Helper != "ok" {
					target = fmt.Sprintf("/burst/%s/%d", cs.Helper, n*100+round)
				}
				conns := make([]net.Conn, k)
				for i := range conns {
					c, err := lns[cs.Ctx].Dial()
					if err != nil {
						t.Fatal(err)
					}
					_ = c.SetDeadline(time.Now().Add(respDeadline))
					conns[i] = c
				}
				res := make(chan string, k)
				start := make(chan struct{})
				for _, conn := range conns {
					go func(conn net.Conn) {
						defer conn.Close()
						<-start
						if _, err := conn.Write([]byte("GET " + target + " HTTP/1.1\r\nHost: w.test\r\n\r\n")); err != nil {
							res <- "write: " + err.Error()
							return
						}
						resp, err := readStrict(bufio.NewReader(conn))
						switch {
						case err != nil:
							res <- "no response: " + err.Error()
						case resp.Err != "":
							res <- "not well-formed: " + resp.Err
						case resp.Status != 200:
							res <- fmt.Sprintf("status %d", resp.Status)
						default:
							res <- ""
						}
					}(conn)
				}
				close(start)
				for i := 0; i < k; i++ {
					if r := <-res; r != "" {
						bad = append(bad, r)
					}
				}
			}
			if len(bad) > 0 {
				fail("concurrent-requests-not-all-answered", "every request answered 200", fmt.Sprintf("%d unanswered or wrong, e.g. %s", len(bad), bad[0]))
				respDeadline = time.Second
			}
			return
		}
		exchange(req)
		if (cs.First == "hostileheaders" || cs.First == "hostileframing") && cs.Helper == "set" { // the members of the class, one hostile value each
			for i, hreq := range c07Hostile(cs.First) {
				k := bytes.Index(hreq, []byte("\r\n\r\n"))
				lines := strings.Split(string(hreq[:k]), "\r\n")
				variant = fmt.Sprintf("%d:%.80q", i, lines[len(lines)-1-min(1, len(lines)-2)])
				nHostileVariants++
				exchange(hreq)
			}
			variant = ""
		}
	})
	// ---- mutation tier: byte-level mutants of the class templates; the oracle is the spec's status universe and its
	// status -> connection-fate function, the strict parser and the allocation budget (no prescribed status per mutant)
	nFuzz, _ := strconv.Atoi(os.Getenv("VERIF_FUZZ"))
	seed, _ := strconv.ParseUint(os.Getenv("VERIF_SEED"), 10, 64)
	x := seed*2862933555777941757 + 3037000493
	rnd := func(w int) int {
		x ^= x << 13
		x ^= x >> 7
		x ^= x << 17
		return int(x % uint64(w))
	}
	classes := []string{"ok", "unknownmethod", "badmethodbytes", "spaceintarget", "noversion", "clabc", "clneg", "dupcl", "badchunk", "hostileheaders", "absoluteuri", "multipart", "range", "accept"}
	special := []byte("\r\n\x00 :;,=%\"\\-*/?&\xff\x80\t0123456789")
	kinds := []string{"default", "custom", "immutable", "methods", "unescape"}
	universe := map[int]int{200: 200, 206: 200, 404: 200, 416: 200, 501: 200, 400: 0, 413: 0, 431: 0, 408: 0}
	var nResp, nSilent int
	statusSeen := map[int]int{}
	for i := 0; i < nFuzz; i++ {
		cls := classes[rnd(len(classes))]
		req := append([]byte{}, c07Request(cls)...)
		for m := 1 + rnd(3); m > 0 && len(req) > 4; m-- {
			pos := rnd(len(req))
			switch rnd(6) {
			case 0:
				req[pos] = special[rnd(len(special))]
			case 1:
				req = append(req[:pos], append([]byte{special[rnd(len(special))]}, req[pos:]...)...)
			case 2:
				end := min(len(req), pos+1+rnd(8))
				req = append(req[:pos], req[end:]...)
			case 3:
				end := min(len(req), pos+1+rnd(24))
				req = append(req[:end], append(append([]byte{}, req[pos:end]...), req[end:]...)...)
			case 4:
				req[pos] ^= byte(1 << rnd(8))
			case 5:
				req = req[:pos]
			}
		}
		kind := kinds[rnd(len(kinds))]
		fail := func(what string, exp, got any) {
			o.violation(map[string]any{"check": "wire-" + what, "prop": "C07", "first": "mutant-of-" + cls, "helper": "", "arg": "", "ctx": kind, "request": string(req), "expected": exp, "observed": got})
		}
		var ms1, ms2 runtime.MemStats
		runtime.ReadMemStats(&ms1)
		conn, err := lns[kind].Dial()
		if err != nil {
			t.Fatal(err)
		}
		_ = conn.SetDeadline(time.Now().Add(20 * time.Millisecond))
		go func() { _, _ = conn.Write(req) }()
		br := bufio.NewReader(conn)
		resp, err := readStrict(br)
		runtime.ReadMemStats(&ms2)
		if err != nil { // an incomplete request: the server rightly waits for the rest
			nSilent++
			conn.Close()
			continue
		}
		nResp++
		if resp.Err != "" {
			fail("response-not-well-formed", "a well-formed HTTP/1.1 response", resp.Err)
			conn.Close()
			continue
		}
		statusSeen[resp.Status]++
		second, ok := universe[resp.Status]
		if !ok {
			fail("status", "a status of the spec's universe", resp.Status)
			conn.Close()
			continue
		}
		if alloc := ms2.TotalAlloc - ms1.TotalAlloc; alloc > 4<<20+64*uint64(len(req)) {
			fail("allocation-out-of-proportion", "<= 4MiB + 64 x request size", alloc)
		}
		if second == 0 { // a rejected request: nothing more may be served on this connection
			_ = conn.SetDeadline(time.Now().Add(20 * time.Millisecond))
			if _, err := conn.Write([]byte("GET /ok HTTP/1.1\r\nHost: w.test\r\n\r\n")); err == nil {
				if r2, e2 := readStrict(br); e2 == nil && r2.Err == "" && r2.Status == 200 {
					fail("connection-fate", 0, r2.Status)
				}
			}
		}
		conn.Close()
		if i%997 == 0 {
			o.sample(map[string]any{"mutant_of": cls, "ctx": kind, "request": string(req[:min(len(req), 200)]), "status": resp.Status})
		}
	}
	_ = net.ErrClosed
	o.summary(map[string]any{"cases": n, "helper_calls_with_hostile_argument": nHostileArg, "malformed_or_oversized_requests": nMalformed, "hostile_header_variants": nHostileVariants, "concurrent_bursts": nBurst,
		"mutants": nFuzz, "mutants_answered": nResp, "mutants_incomplete_no_answer": nSilent, "mutant_statuses": statusSeen, "violations": o.nV})
}
