package harness

import (
	"bytes"
	"regexp"
	"runtime"
	"strconv"
	"sync"
	"syscall"
)

// Gate scheduler (DESIGN.md 2.4): every request runs in its own goroutine; at each *gate* (storage
// operation after it took effect, user callback, handler) the goroutine logs an event and parks until
// the scheduler releases it.  The code's private mutexes are NOT gated: a released goroutine that
// runs into a held mutex never reaches its next gate, which the scheduler recognises from the
// goroutine's wait reason in runtime.Stack.  The scheduler is a stateless DFS over "which parked
// goroutine runs next", re-executing from a fresh system per schedule.

type procState int

const (
	psRunning procState = iota
	psParked
	psBlocked
	psDone
)

type proc struct {
	id     int
	goid   int64
	state  procState
	resume chan struct{}
	label  string
	panicV any
}

type event map[string]any

type sched struct {
	mu     sync.Mutex
	procs  []*proc
	byGoid map[int64]*proc
	arrive chan *proc
	finish chan *proc
	events []event
	seq    int
}

func newSched() *sched {
	return &sched{byGoid: map[int64]*proc{}, arrive: make(chan *proc, 64), finish: make(chan *proc, 64)}
}

var goidRx = regexp.MustCompile(`^goroutine (\d+) `)

func curGoid() int64 {
	var buf [64]byte
	n := runtime.Stack(buf[:], false)
	m := goidRx.FindSubmatch(buf[:n])
	if m == nil {
		return -1
	}
	id, _ := strconv.ParseInt(string(m[1]), 10, 64)
	return id
}

// spawn starts proc `id` running f; the goroutine parks at its first gate.
func (s *sched) spawn(id int, f func()) *proc {
	p := &proc{id: id, resume: make(chan struct{}), state: psRunning}
	s.mu.Lock()
	s.procs = append(s.procs, p)
	s.mu.Unlock()
	ready := make(chan struct{})
	go func() {
		p.goid = curGoid()
		s.mu.Lock()
		s.byGoid[p.goid] = p
		s.mu.Unlock()
		close(ready)
		defer func() {
			if r := recover(); r != nil {
				p.panicV = r
				s.log(event{"ev": "panic", "p": p.id})
			}
			s.finish <- p
		}()
		s.gateP(p, "spawn", nil) // every proc starts parked, so the scheduler decides who moves first
		f()
	}()
	<-ready
	return p
}

func (s *sched) log(e event) {
	s.mu.Lock()
	s.seq++
	e["seq"] = s.seq
	s.events = append(s.events, e)
	s.mu.Unlock()
}

// gate is called from code running inside a proc goroutine (storage wrapper, callbacks).
// Calls from unregistered goroutines (warm-up requests) pass straight through, unlogged.
func (s *sched) gate(label string, e event) {
	s.mu.Lock()
	p := s.byGoid[curGoid()]
	s.mu.Unlock()
	if p == nil {
		return
	}
	s.gateP(p, label, e)
}

// procID returns the id of the proc the calling goroutine belongs to (0 if none).
func (s *sched) procID() int {
	s.mu.Lock()
	defer s.mu.Unlock()
	if p := s.byGoid[curGoid()]; p != nil {
		return p.id
	}
	return 0
}

func (s *sched) gateP(p *proc, label string, e event) {
	if e != nil {
		e["p"] = p.id
		s.log(e)
	}
	p.label = label
	s.arrive <- p
	<-p.resume
}

var stackHdr = regexp.MustCompile(`(?m)^goroutine (\d+) \[([^\]]+)\]`)

func waitReasons() map[int64]string {
	buf := make([]byte, 1<<16)
	for {
		n := runtime.Stack(buf, true)
		if n < len(buf) {
			buf = buf[:n]
			break
		}
		buf = make([]byte, 2*len(buf))
	}
	res := map[int64]string{}
	for _, m := range stackHdr.FindAllSubmatch(buf, -1) {
		id, _ := strconv.ParseInt(string(m[1]), 10, 64)
		r := m[2]
		if i := bytes.IndexByte(r, ','); i >= 0 {
			r = r[:i]
		}
		res[id] = string(r)
	}
	return res
}

// settle returns when every live proc is parked at a gate, finished, or blocked on a sync primitive.
func (s *sched) settle() {
	for spins := 0; ; spins++ {
		for drained := false; !drained; {
			select {
			case p := <-s.arrive:
				p.state = psParked
			case p := <-s.finish:
				p.state = psDone
			default:
				drained = true
			}
		}
		quiet := true
		var reasons map[int64]string
		for _, p := range s.procs {
			if p.state != psRunning {
				continue
			}
			if spins%20 == 19 {
				if reasons == nil {
					reasons = waitReasons()
				}
				if r := reasons[p.goid]; len(r) >= 5 && r[:5] == "sync." {
					p.state = psBlocked
					continue
				}
			}
			quiet = false
		}
		if quiet {
			return
		}
		runtime.Gosched()
	}
}

// enabled lists the procs that can be released now.
func (s *sched) enabled() []*proc {
	var r []*proc
	for _, p := range s.procs {
		if p.state == psParked {
			r = append(r, p)
		}
	}
	return r
}

func (s *sched) allDone() bool {
	for _, p := range s.procs {
		if p.state != psDone {
			return false
		}
	}
	return true
}

// step releases proc p and waits for quiescence.  Lock-blocked procs are re-examined (the lock may be free now).
func (s *sched) step(p *proc) {
	for _, q := range s.procs {
		if q.state == psBlocked {
			q.state = psRunning
		}
	}
	p.state = psRunning
	p.resume <- struct{}{}
	s.settle()
}

// deadlocked: nobody can be released and not everybody is done.
func (s *sched) deadlocked() bool { return len(s.enabled()) == 0 && !s.allDone() }

var rescuedByPatience int // times a "nobody can move" situation dissolved during the grace period (a transient mutex wait)
var confirmedStuck int    // executions of this process in which "nobody can move" survived the grace period

func wallNanos() int64 { // real time, also inside a synctest bubble (time.Now is virtual there)
	var tv syscall.Timeval
	_ = syscall.Gettimeofday(&tv)
	return tv.Sec*1e9 + int64(tv.Usec)*1e3
}

// patience is called when no proc can be released although some are not done.  A proc classified as lock-blocked may have
// been seen in a TRANSIENT mutex wait (the scheduler's own log mutex, a pool's internal lock whose holder sits on a
// descheduled OS thread when the machine is busy): before the situation is reported as a deadlock the blocked procs are
// re-examined in real time for a grace period.  Returns true if somebody can move again (or everybody finished).
func (s *sched) patience(filter func(*proc) bool) bool {
	budget := int64(400e6)
	if confirmedStuck >= 10 {
		budget = 60e6 // a code change that deadlocks most schedules must not make the exploration crawl
	}
	t0 := wallNanos()
	for wallNanos()-t0 < budget {
		ts := syscall.Timespec{Nsec: 2e6}
		_ = syscall.Nanosleep(&ts, nil)
		for _, q := range s.procs {
			if q.state == psBlocked {
				q.state = psRunning
			}
		}
		s.settle()
		if s.allDone() {
			rescuedByPatience++
			return true
		}
		for _, p := range s.enabled() {
			if filter == nil || filter(p) {
				rescuedByPatience++
				return true
			}
		}
	}
	confirmedStuck++
	return false
}

// abandon releases every parked proc repeatedly so that goroutines of an abandoned execution terminate
// (used after a detected deadlock is impossible to resolve: blocked goroutines are left behind).
func (s *sched) drain() {
	for i := 0; i < 10000 && !s.allDone(); i++ {
		en := s.enabled()
		if len(en) == 0 {
			return
		}
		s.step(en[0])
	}
}

// explore runs `run` for every schedule (DFS over choices among enabled procs), up to maxSchedules.
// newExec builds a fresh system and returns the scheduler with all procs spawned (parked at "spawn") plus
// a function that is called after the execution finished (or deadlocked) to emit the trace.
// extra(s) may offer additional scheduler-level choices (e.g. "tick") as closures.
type execCtl struct {
	s      *sched
	filter func(p *proc) bool // optional: which parked procs may be released now
	extra  func() []func()    // environment actions enabled now (besides releasing a proc)
	done   func(deadlock bool, choices []int)
}

// exploreFrom is explore resumable across processes: it starts at the schedule identified by `prefix`
// (nil = the first one) and returns the prefix of the next unexplored schedule (nil when the space is exhausted).
func exploreFrom(newExec func() *execCtl, prefix []int, maxSchedules int, maxSteps int) (nSched int, next []int, truncated bool) {
	for {
		ex := newExec()
		s := ex.s
		s.settle()
		var choices, widths []int
		deadlock := false
		for step := 0; !s.allDone(); step++ {
			if step > maxSteps {
				truncated = true
				break
			}
			en := s.enabled()
			if ex.filter != nil {
				var keep []*proc
				for _, p := range en {
					if ex.filter(p) {
						keep = append(keep, p)
					}
				}
				en = keep
			}
			var env []func()
			if ex.extra != nil {
				env = ex.extra()
			}
			w := len(en) + len(env)
			if len(en) == 0 {
				// only environment actions cannot resolve a deadlock among the procs
				if s.patience(ex.filter) {
					step--
					continue
				}
				deadlock = true
				break
			}
			c := 0
			if len(choices) < len(prefix) {
				c = prefix[len(choices)]
			}
			if c >= w {
				c = 0
			}
			choices = append(choices, c)
			widths = append(widths, w)
			if c < len(en) {
				s.step(en[c])
			} else {
				env[c-len(en)]()
				s.settle()
			}
		}
		ex.done(deadlock, choices)
		if !deadlock {
			s.drain()
		}
		nSched++
		// next schedule: increment the last choice that has an alternative left
		i := len(choices) - 1
		for i >= 0 && choices[i]+1 >= widths[i] {
			i--
		}
		if i < 0 {
			return nSched, nil, truncated
		}
		prefix = append(append([]int{}, choices[:i]...), choices[i]+1)
		if nSched >= maxSchedules {
			return nSched, prefix, truncated
		}
	}
}

func explore(newExec func() *execCtl, maxSchedules int, maxSteps int) (nSched int, truncated bool) {
	n, next, tr := exploreFrom(newExec, nil, maxSchedules, maxSteps)
	return n, tr || next != nil
}

// exploreRandom runs n schedules with uniformly random choices (deterministic in seed): used where the
// schedule space is too large to enumerate, in addition to a DFS prefix.
func exploreRandom(newExec func() *execCtl, n int, seed uint64, maxSteps int) {
	x := seed*2862933555777941757 + 3037000493
	rnd := func(w int) int {
		x ^= x << 13
		x ^= x >> 7
		x ^= x << 17
		return int(x % uint64(w))
	}
	for i := 0; i < n; i++ {
		ex := newExec()
		s := ex.s
		s.settle()
		var choices []int
		deadlock := false
		for step := 0; !s.allDone() && step <= maxSteps; step++ {
			en := s.enabled()
			if ex.filter != nil {
				var keep []*proc
				for _, p := range en {
					if ex.filter(p) {
						keep = append(keep, p)
					}
				}
				en = keep
			}
			var env []func()
			if ex.extra != nil {
				env = ex.extra()
			}
			if len(en) == 0 {
				if s.patience(ex.filter) {
					step--
					continue
				}
				deadlock = true
				break
			}
			c := rnd(len(en) + len(env))
			choices = append(choices, c)
			if c < len(en) {
				s.step(en[c])
			} else {
				env[c-len(en)]()
				s.settle()
			}
		}
		ex.done(deadlock, choices)
		if !deadlock {
			s.drain()
		}
	}
}
