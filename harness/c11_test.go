package harness

import (
	"bytes"
	"encoding/json"
	"encoding/xml"
	"fmt"
	"io"
	"net"
	"os"
	"reflect"
	"strconv"
	"strings"
	"testing"
	"time"

	"github.com/fxamacker/cbor/v2"
	"github.com/gofiber/fiber/v3"
	"github.com/gofiber/fiber/v3/client"
	"github.com/valyala/fasthttp/fasthttputil"
)

// C11: every behaviour TLC enumerates from spec/Binding.tla (SetStruct / Send / Bad sequences over one client and one app) is
// executed with the real client over an in-memory connection against a real app whose handler binds from the same source; the bound
// struct (returned as JSON) is compared with the value the specification's Dec(Enc(v)) prescribes.

type c11Val struct {
	XMLName xml.Name  `json:"-" xml:"v" cbor:"-" query:"-" form:"-" header:"-" cookie:"-" param:"-"`
	S       string    `json:"s" xml:"s" cbor:"s" query:"s" param:"s" form:"s" header:"X-S" cookie:"s"`
	I       int64     `json:"i" xml:"i" cbor:"i" query:"i" param:"i" form:"i" header:"X-I" cookie:"i"`
	U       uint64    `json:"u" xml:"u" cbor:"u" query:"u" param:"u" form:"u" header:"X-U" cookie:"u"`
	I8      int8      `json:"i8" xml:"i8" cbor:"i8" query:"i8" param:"i8" form:"i8" header:"X-I8" cookie:"i8"`
	F       float64   `json:"f" xml:"f" cbor:"f" query:"f" param:"f" form:"f" header:"X-F" cookie:"f"`
	B       bool      `json:"b" xml:"b" cbor:"b" query:"b" param:"b" form:"b" header:"X-B" cookie:"b"`
	SS      []string  `json:"ss" xml:"ss" cbor:"ss" query:"ss" param:"ss" form:"ss" header:"X-Ss" cookie:"ss"`
	IS      []int64   `json:"is" xml:"is" cbor:"is" query:"is" param:"is" form:"is" header:"X-Is" cookie:"is"`
	FS      []float64 `json:"fs" xml:"fs" cbor:"fs" query:"fs" param:"fs" form:"fs" header:"X-Fs" cookie:"fs"`
	BS      []bool    `json:"bs" xml:"bs" cbor:"bs" query:"bs" param:"bs" form:"bs" header:"X-Bs" cookie:"bs"`
}

var c11Atoms = map[string]string{"sp": " ", "amp": "&", "eq": "=", "plus": "+", "pct": "%", "pct41": "%41", "comma": ",", "lb": "[", "rb": "]", "semi": ";",
	"dq": "\"", "slash": "/", "qm": "?", "hash": "#", "eacute": "é", "cjk": "世", "emoji": "\U0001F600", "lt": "<", "gt": ">", "bs": "\\", "dot": ".",
	"colon": ":", "tab": "\t", "nl": "\n", "long": strings.Repeat("x", 300)}

func c11Str(atoms []string) string {
	var b strings.Builder
	for _, a := range atoms {
		if s, ok := c11Atoms[a]; ok {
			b.WriteString(s)
		} else {
			b.WriteString(a)
		}
	}
	return b.String()
}

// the value as the specification writes it: strings as atom sequences, numbers as tokens
type c11Spec struct {
	S  []string   `json:"s"`
	I  string     `json:"i"`
	U  string     `json:"u"`
	I8 string     `json:"i8"`
	F  string     `json:"f"`
	B  string     `json:"b"`
	SS [][]string `json:"ss"`
	IS []string   `json:"is"`
	FS []string   `json:"fs"`
	BS []string   `json:"bs"`
}

func (v *c11Spec) value() c11Val {
	r := c11Val{S: c11Str(v.S), B: v.B == "true"}
	r.I, _ = strconv.ParseInt(v.I, 10, 64)
	r.U, _ = strconv.ParseUint(v.U, 10, 64)
	i8, _ := strconv.ParseInt(v.I8, 10, 8)
	r.I8 = int8(i8)
	r.F, _ = strconv.ParseFloat(v.F, 64)
	for _, s := range v.SS {
		r.SS = append(r.SS, c11Str(s))
	}
	for _, s := range v.IS {
		n, _ := strconv.ParseInt(s, 10, 64)
		r.IS = append(r.IS, n)
	}
	for _, s := range v.FS {
		f, _ := strconv.ParseFloat(s, 64)
		r.FS = append(r.FS, f)
	}
	for _, s := range v.BS {
		r.BS = append(r.BS, s == "true")
	}
	return r
}

// equal modulo nil / empty slices
func c11Equal(a, b c11Val) bool {
	a.XMLName, b.XMLName = xml.Name{}, xml.Name{}
	if len(a.SS) == 0 && len(b.SS) == 0 {
		a.SS, b.SS = nil, nil
	}
	if len(a.IS) == 0 && len(b.IS) == 0 {
		a.IS, b.IS = nil, nil
	}
	if len(a.FS) == 0 && len(b.FS) == 0 {
		a.FS, b.FS = nil, nil
	}
	if len(a.BS) == 0 && len(b.BS) == 0 {
		a.BS, b.BS = nil, nil
	}
	return reflect.DeepEqual(a, b)
}

type c11Step struct {
	Op       string   `json:"op"`
	V        *c11Spec `json:"v"`
	Mode     string   `json:"mode"`
	Kind     string   `json:"kind"`
	Status   int      `json:"status"`
	Expect   *c11Spec `json:"expect"`
	Asserted bool     `json:"asserted"`
}

func c11App(split bool) *fasthttputil.InmemoryListener {
	app := fiber.New(fiber.Config{EnableSplittingOnParsers: split})
	app.Post("/bind/:source/:mode", func(c fiber.Ctx) (err error) {
		defer func() {
			if r := recover(); r != nil {
				err = c.Status(599).SendString(fmt.Sprintf("PANIC: %v", r))
			}
		}()
		var out c11Val
		b := c.Bind()
		if c.Params("mode") == "auto" {
			b = b.WithAutoHandling()
		}
		switch c.Params("source") {
		case "query":
			err = b.Query(&out)
		case "form", "multipart":
			err = b.Form(&out)
		case "header":
			err = b.Header(&out)
		case "cookie":
			err = b.Cookie(&out)
		case "json":
			err = b.JSON(&out)
		case "xml":
			err = b.XML(&out)
		case "cbor":
			err = b.CBOR(&out)
		case "body-json", "body-xml", "body-cbor", "body-form", "body-multipart":
			err = b.Body(&out)
		}
		if err != nil {
			if c.Params("mode") == "manual" {
				// the handler deals with the failure itself: the framework must have left the reply alone
				before := c.Response().StatusCode()
				return c.Status(422).SendString(fmt.Sprintf("ERR(status-before=%d): %v", before, err))
			}
			return err
		}
		return c.JSON(out)
	})
	ln := fasthttputil.NewInmemoryListener()
	go func() { _ = app.Listener(ln, fiber.ListenConfig{DisableStartupMessage: true}) }()
	return ln
}

func c11Bad(source, kind string, rq *client.Request) {
	source = strings.TrimPrefix(source, "body-")
	kv := func(k, v string) {
		switch source {
		case "query":
			rq.AddParam(k, v)
		case "form":
			rq.AddFormData(k, v)
		case "multipart":
			rq.AddFormData(k, v)
			rq.AddFileWithReader("f.txt", io.NopCloser(strings.NewReader("FILE")))
		case "header":
			rq.AddHeader("X-"+strings.ToUpper(k[:1])+k[1:], v)
		case "cookie":
			rq.SetCookie(k, v)
		}
	}
	good := c11Val{S: "a", I: 42, SS: []string{"a", "b"}}
	var body []byte
	ct := map[string]string{"json": "application/json", "xml": "application/xml", "cbor": "application/cbor"}[source]
	switch kind {
	case "notanumber":
		kv("i", "abc")
	case "overflow":
		kv("i8", "300")
	case "bracket":
		kv("ss[", "x")
	case "garbage":
		body = []byte("\xff{{{<<\x00\x1f")
	case "wrongtype":
		switch ct {
		case "application/json":
			body = []byte(`{"i":"abc"}`)
		case "application/xml":
			body = []byte(`<v><i>abc</i></v>`)
		default:
			body = []byte{0xa1, 0x61, 0x69, 0x63, 0x61, 0x62, 0x63}
		}
	case "truncated":
		switch ct {
		case "application/json":
			body, _ = json.Marshal(good)
		case "application/xml":
			body, _ = xml.Marshal(good)
		default:
			body, _ = cbor.Marshal(good)
		}
		body = body[:len(body)/2]
	}
	if body != nil {
		rq.SetRawBody(body)
		rq.SetHeader("Content-Type", ct)
	}
}

func TestC11(t *testing.T) {
	if os.Getenv("VERIF_CASES") == "" {
		t.Skip("VERIF_CASES not set")
	}
	o := newOut(t)
	defer o.close()
	lns := map[bool]*fasthttputil.InmemoryListener{false: c11App(false), true: c11App(true)}
	viaBody := os.Getenv("VERIF_C11_BODY") != "" // bind through Bind().Body (source selected by content type)
	var n, nSend, nAsserted, nBad, nOutside, nSplitRefined, nCookieMulti int
	readCases(t, "VERIF_CASES", func(line []byte) {
		var cs struct {
			Source string    `json:"source"`
			Split  bool      `json:"split"`
			Steps  []c11Step `json:"steps"`
		}
		if err := json.Unmarshal(line, &cs); err != nil {
			t.Fatalf("bad case %v", err)
		}
		n++
		ln := lns[cs.Split]
		cl := client.New().SetDial(func(string) (net.Conn, error) { return ln.Dial() }).SetTimeout(20 * time.Second) // guards against a wedged server only
		route := cs.Source
		if viaBody && (cs.Source == "json" || cs.Source == "xml" || cs.Source == "cbor" || cs.Source == "form" || cs.Source == "multipart") {
			route = "body-" + cs.Source
		}
		rq := cl.R()
		var last *c11Spec
		fail := func(step int, what string, exp, got any) {
			o.violation(map[string]any{"check": "bind-" + what, "prop": "C11", "source": cs.Source, "split": cs.Split, "via_body": viaBody, "steps": cs.Steps, "step": step,
				"sent": last, "expected": exp, "observed": got})
		}
		for si, st := range cs.Steps {
			switch st.Op {
			case "set":
				v := st.V.value()
				last = st.V
				switch cs.Source {
				case "query":
					rq.SetParamsWithStruct(v)
				case "form":
					rq.SetFormDataWithStruct(v)
				case "multipart":
					rq.SetFormDataWithStruct(v)
				case "cookie":
					rq.SetCookiesWithStruct(v)
				case "header": // no struct setter for headers: the encoding of the specification, entry by entry
					add := func(k, s string) { rq.AddHeader(k, s) }
					add("X-S", v.S)
					add("X-I", strconv.FormatInt(v.I, 10))
					add("X-U", strconv.FormatUint(v.U, 10))
					add("X-I8", strconv.FormatInt(int64(v.I8), 10))
					add("X-F", strconv.FormatFloat(v.F, 'f', -1, 64))
					add("X-B", strconv.FormatBool(v.B))
					for _, s := range v.SS {
						add("X-Ss", s)
					}
					for _, x := range v.IS {
						add("X-Is", strconv.FormatInt(x, 10))
					}
					for _, x := range v.FS {
						add("X-Fs", strconv.FormatFloat(x, 'f', -1, 64))
					}
					for _, x := range v.BS {
						add("X-Bs", strconv.FormatBool(x))
					}
				case "json":
					rq.SetJSON(v)
				case "xml":
					rq.SetXML(v)
				case "cbor":
					rq.SetCBOR(v)
				}
				continue
			case "bad":
				nBad++
				c11Bad(route, st.Kind, rq)
			case "send":
				nSend++
				if cs.Source == "multipart" {
					rq.AddFileWithReader("f.txt", io.NopCloser(strings.NewReader("FILE")))
				}
			}
			if st.Op == "send" && !st.Asserted {
				// a value the source cannot carry (a line break in a header) may leave the server waiting for the rest of a request
				rq.SetTimeout(time.Second)
			}
			resp, err := rq.Post("http://bind.test/bind/" + route + "/" + st.Mode)
			rq = cl.R()
			if err != nil {
				if st.Op == "send" && !st.Asserted {
					nOutside++ // the client refuses a value the source cannot carry: an error, not a panic
					continue
				}
				fail(si, "request-failed", st.Status, err.Error())
				return
			}
			status, body := resp.StatusCode(), append([]byte{}, resp.Body()...)
			resp.Close()
			if status == 599 || status >= 500 {
				fail(si, "panic-or-5xx", st.Status, fmt.Sprintf("%d %s", status, body))
				return
			}
			if st.Op == "bad" {
				if status != st.Status {
					fail(si, "error-not-reported-as-prescribed", st.Status, fmt.Sprintf("%d %s", status, body))
					return
				}
				if st.Mode == "manual" && !bytes.HasPrefix(body, []byte("ERR(status-before=200)")) {
					fail(si, "manual-mode-touched-the-reply", "ERR(status-before=200)...", string(body))
					return
				}
				continue
			}
			if !st.Asserted {
				nOutside++
				continue
			}
			nAsserted++
			if status != 200 {
				fail(si, "valid-value-rejected", 200, fmt.Sprintf("%d %s", status, body))
				return
			}
			var got c11Val
			if err := json.Unmarshal(body, &got); err != nil {
				fail(si, "reply-unreadable", "json", string(body))
				return
			}
			exp := st.Expect.value()
			if !c11Equal(exp, got) {
				e, _ := json.Marshal(exp)
				// the client's cookie holder is a map[string]string: of a slice with several elements only the last one is sent.
				// Reported as its own class, and only when that is the whole difference.
				lastOnly := exp
				multi := false
				if cs.Source == "cookie" {
					if len(exp.SS) > 1 {
						lastOnly.SS, multi = exp.SS[len(exp.SS)-1:], true
					}
					if len(exp.IS) > 1 {
						lastOnly.IS, multi = exp.IS[len(exp.IS)-1:], true
					}
					if len(exp.FS) > 1 {
						lastOnly.FS, multi = exp.FS[len(exp.FS)-1:], true
					}
					if len(exp.BS) > 1 {
						lastOnly.BS, multi = exp.BS[len(exp.BS)-1:], true
					}
				}
				if multi && c11Equal(lastOnly, got) {
					nCookieMulti++
					if nCookieMulti <= 3 {
						fail(si, "cookie-slice-keeps-only-last-element", string(e), string(body))
					}
					continue
				}
				fail(si, "bound-value-differs", string(e), string(body))
				return
			}
			if cs.Split && len(exp.SS) != len(last.SS) {
				nSplitRefined++
			}
			if nAsserted%499 == 1 {
				o.sample(map[string]any{"source": cs.Source, "split": cs.Split, "sent": last, "bound": got})
			}
		}
	})
	o.summary(map[string]any{"cases": n, "sends": nSend, "sends_compared": nAsserted, "sends_outside_what_the_source_carries": nOutside, "unbindable_requests": nBad,
		"comma_split_refinements": nSplitRefined, "cookie_multi_element_slices": nCookieMulti, "violations": o.nV})
}
