package harness

import (
	"bufio"
	"encoding/json"
	"fmt"
	"os"
	"strconv"
	"strings"
	"testing"
	"testing/synctest"
	"time"

	"github.com/gofiber/fiber/v3"
	"github.com/gofiber/fiber/v3/middleware/cache"
	"github.com/gofiber/utils/v2"
	"github.com/valyala/fasthttp"
)

// C14: (backward) every schedule of concurrent requests through the real cache middleware over a gated
// external storage is recorded and validated by TLC against spec/Cache.tla; (forward) timed histories
// simulated from the spec are replayed sequentially on the memory and an external storage.

type c14Req struct {
	Key    string `json:"key"`
	NC     bool   `json:"nc"`
	NS     bool   `json:"ns"`
	IV     bool   `json:"iv"`
	RB     string `json:"rb"`
	RS     int    `json:"rs"`
	Late   bool   `json:"-"`
	Ev     string `json:"ev"`
	D      int    `json:"d"`
	Status int    `json:"status"`
	Body   string `json:"body"`
	X      string `json:"x"`
	Amb    bool   `json:"amb"`
}

type c14Conf struct {
	MaxBytes     int  `json:"maxBytes"`
	Exp          int  `json:"exp"`
	StoreHeaders bool `json:"storeHeaders"`
	// OwnClock: the process never starts the clock shared through gofiber/utils (no memory-backed middleware, no
	// StartTimeStampUpdater): only external-storage histories are run, the storage keeps time by itself
	OwnClock bool `json:"ownClock"`
}

func cacheApp(cf c14Conf, storage fiber.Storage, s *sched) fasthttp.RequestHandler {
	app := fiber.New()
	if s != nil {
		app.Use(func(c fiber.Ctx) error {
			rs, _ := strconv.Atoi(c.Get("X-RS"))
			s.gate("start", event{"ev": "start", "key": c.Get("X-Key"), "nc": strings.Contains(c.Get("Cache-Control"), "no-cache"),
				"ns": strings.Contains(c.Get("Cache-Control"), "no-store"), "iv": c.Get("X-IV") == "1", "rb": c.Get("X-RB"), "rs": rs})
			return c.Next()
		})
	}
	app.Use(cache.New(cache.Config{
		Storage:    storage,
		Expiration: time.Duration(cf.Exp) * time.Second,
		MaxBytes:   uint(cf.MaxBytes),
		KeyGenerator: func(c fiber.Ctx) string {
			return c.Get("X-Key")
		},
		CacheInvalidator:     func(c fiber.Ctx) bool { return c.Get("X-IV") == "1" },
		StoreResponseHeaders: cf.StoreHeaders,
	}))
	app.Get("/", func(c fiber.Ctx) error {
		if s != nil {
			s.gate("handler", event{"ev": "handler"})
		}
		rs, _ := strconv.Atoi(c.Get("X-RS"))
		// every header of the origin's response is a function of its body, so that a served response can be checked against
		// the body the specification prescribes: content type, content encoding, a custom header, a multi-valued custom header
		c.Set("Content-Type", "text/x-"+c.Get("X-RB"))
		c.Set("Content-Encoding", "enc-"+c.Get("X-RB"))
		c.Set("X-Origin", "o-"+c.Get("X-RB"))
		c.Response().Header.Add("X-Multi", "m1-"+c.Get("X-RB"))
		c.Response().Header.Add("X-Multi", "m2-"+c.Get("X-RB"))
		return c.Status(rs).SendString(c.Get("X-RB"))
	})
	return app.Handler()
}

// c14Headers: content encoding, X-Origin and the X-Multi values of a response
func c14Headers(rc *fasthttp.RequestCtx) (string, string, string) {
	var multi []string // the members of the field's combined value (RFC 9110 5.3: several field lines = one comma-separated list)
	for _, v := range rc.Response.Header.PeekAll("X-Multi") {
		for _, m := range strings.Split(string(v), ",") {
			multi = append(multi, strings.TrimSpace(m))
		}
	}
	return string(rc.Response.Header.Peek("Content-Encoding")), string(rc.Response.Header.Peek("X-Origin")), strings.Join(multi, ",")
}

var c14LastRC *fasthttp.RequestCtx // the response of the last c14Do (sequential drivers only)

func c14Do(h fasthttp.RequestHandler, r c14Req) (int, string, string, string) {
	cc := ""
	if r.NC {
		cc = "no-cache"
	}
	if r.NS {
		cc = "no-store"
		if r.NC {
			cc = "no-cache, no-store"
		}
	}
	iv := "0"
	if r.IV {
		iv = "1"
	}
	rc := doReqH(h, "GET", "/", "X-Key", r.Key, "X-RB", r.RB, "X-RS", strconv.Itoa(r.RS), "X-IV", iv, "Cache-Control", cc)
	c14LastRC = rc
	return rc.Response.StatusCode(), string(rc.Response.Body()), string(rc.Response.Header.Peek("X-Cache")), string(rc.Response.Header.ContentType())
}

func c14Scenarios(thorough bool) [][]c14Req {
	sc := [][]c14Req{
		// 0: two concurrent requests on one key (cold: two misses; warm: two hits), then a late probe
		{{Key: "a", RB: "mm", RS: 200}, {Key: "a", RB: "llllll", RS: 200}, {Key: "a", RB: "s", RS: 200, Late: true}},
		// 1: both invalidate the stored entry (the expired-entry path: delete + heap removal), then store again
		{{Key: "a", RB: "mm", RS: 200, IV: true}, {Key: "a", RB: "llllll", RS: 200, IV: true}, {Key: "a", RB: "s", RS: 200, Late: true}},
		// 2: eviction pressure: a(6) and b(6) with MaxBytes 7, then probes of both
		{{Key: "a", RB: "llllll", RS: 200}, {Key: "b", RB: "llllll", RS: 200}, {Key: "a", RB: "s", RS: 200, Late: true}, {Key: "b", RB: "s", RS: 200, Late: true}},
		// 3: no-cache and an uncacheable status mixed with an invalidating request
		{{Key: "a", RB: "mm", RS: 200, NC: true}, {Key: "a", RB: "s", RS: 500, IV: true}, {Key: "a", RB: "mm", RS: 200, Late: true}},
		// 4: hit racing with an eviction of the same key
		{{Key: "a", RB: "s", RS: 200}, {Key: "b", RB: "llllll", RS: 200}, {Key: "a", RB: "s", RS: 200, Late: true}},
		// 5: three keys
		{{Key: "a", RB: "mm", RS: 200, IV: true}, {Key: "b", RB: "mm", RS: 200}, {Key: "c", RB: "llllll", RS: 200}},
		// 6: no-store bypass next to an invalidation and a hit
		{{Key: "a", RB: "mm", RS: 200, IV: true}, {Key: "a", RB: "llllll", RS: 200}, {Key: "a", RB: "s", RS: 200, NS: true}},
	}
	_ = thorough
	return sc
}

func TestC14Sched(t *testing.T) {
	tracePath := os.Getenv("VERIF_TRACE")
	if tracePath == "" {
		t.Skip("VERIF_TRACE not set")
	}
	var cf c14Conf
	_ = json.Unmarshal([]byte(os.Getenv("VERIF_CONF")), &cf)
	maxSched, _ := strconv.Atoi(os.Getenv("VERIF_MAXSCHED"))
	scIdx, _ := strconv.Atoi(os.Getenv("VERIF_SCENARIO"))
	warm := os.Getenv("VERIF_WARM") == "1" // store key "a" first (sequentially): hit / invalidated-entry paths
	synctest.Test(t, func(t *testing.T) {
		utils.StartTimeStampUpdater()
		time.Sleep(500 * time.Millisecond)
		f, _ := os.Create(tracePath)
		w := bufio.NewWriter(f)
		o := newOut(t)
		sc := c14Scenarios(true)[scIdx]
		var nTraces, nEvents, nDeadlock, nPanic int
		var resume []int
		if r := os.Getenv("VERIF_RESUME"); r != "" {
			_ = json.Unmarshal([]byte(r), &resume)
		}
		_, next, trunc := exploreFrom(func() *execCtl {
			s := newSched()
			var st *gatedStorage
			st = newGatedStorage(s, func(key string, raw []byte) event {
				e := event{}
				if strings.HasSuffix(key, "_body") {
					e["val"] = string(raw)
					return e
				}
				m := msgpMap(raw)
				e["exp"], e["hidx"], e["status"] = 0, 0, 0
				if m != nil {
					if x := toInt(m["exp"]); x != 0 {
						e["exp"] = x - int(st.t0)
					}
					e["hidx"], e["status"] = toInt(m["heapidx"]), toInt(m["status"])
				}
				return e
			})
			h := cacheApp(cf, st, s)
			procs := sc
			if warm {
				// sequential warm-up outside the scheduler (gates pass through for unregistered goroutines), then expiry
				c14Do(h, c14Req{Key: "a", RB: "mm", RS: 200})
			}
			for i, r := range procs {
				r, id := r, i+1
				s.spawn(id, func() {
					stt, body, x, _ := c14Do(h, r)
					s.log(event{"ev": "end", "p": id, "status": stt, "body": body, "x": x})
				})
			}
			ex := &execCtl{s: s}
			late := func(p *proc) bool { return procs[p.id-1].Late }
			ex.filter = func(p *proc) bool {
				if !late(p) {
					return true
				}
				for _, q := range s.procs {
					if !late(q) && q.state != psDone {
						return false
					}
				}
				return true
			}
			ticks := 0
			ex.extra = func() []func() {
				if ticks >= 0 { // time-dependent behaviour is covered by the sequential histories (every cache instance owns a
					return nil // 300 ms refresher goroutine: thousands of executions make virtual time expensive)
				}
				for _, p := range s.procs { // time passes only while nobody is inside a critical section
					if p.state == psBlocked || (p.state == psParked && p.label != "spawn" && p.label != "handler" && p.label != "start") {
						return nil
					}
				}
				return []func(){func() {
					ticks++
					time.Sleep(time.Duration(cf.Exp) * time.Second)
					s.log(event{"ev": "tick", "d": cf.Exp, "p": 0})
				}}
			}
			ex.done = func(deadlock bool, choices []int) {
				nTraces++
				fmt.Fprintln(w, `{"ev":"reset","p":0}`)
				nEvents++
				if warm {
					// the warm-up as the specification sees it
					for _, ln := range []string{
						`{"ev":"start","p":4,"key":"a","nc":false,"ns":false,"iv":false,"rb":"mm","rs":200}`,
						`{"ev":"getmeta","p":4,"key":"a","exp":0,"hidx":0,"status":0}`, `{"ev":"handler","p":4}`,
						`{"ev":"setbody","p":4,"key":"a","val":"mm","ttl":` + strconv.Itoa(cf.Exp) + `}`,
						`{"ev":"setmeta","p":4,"key":"a","exp":` + strconv.Itoa(cf.Exp) + `,"hidx":0,"status":200,"ttl":` + strconv.Itoa(cf.Exp) + `}`,
						`{"ev":"end","p":4,"status":200,"body":"mm","x":"miss"}`} {
						fmt.Fprintln(w, ln)
						nEvents++
					}
				}
				for _, e := range s.events {
					delete(e, "seq")
					delete(e, "t")
					if k, ok := e["key"].(string); ok {
						isBody := strings.HasSuffix(k, "_body")
						k = strings.TrimSuffix(strings.TrimSuffix(k, "_body"), "_GET")
						e["key"] = k
						switch e["ev"] {
						case "get":
							e["ev"] = map[bool]string{true: "getbody", false: "getmeta"}[isBody]
						case "set":
							e["ev"] = map[bool]string{true: "setbody", false: "setmeta"}[isBody]
						case "del":
							e["ev"] = map[bool]string{true: "delbody", false: "delmeta"}[isBody]
						}
					}
					if e["ev"] == "panic" {
						nPanic++
					}
					b, _ := json.Marshal(e)
					w.Write(b)
					w.WriteByte('\n')
					nEvents++
				}
				if deadlock {
					nDeadlock++
					o.violation(map[string]any{"check": "deadlock", "prop": "C14", "conf": cf, "scenario": scIdx, "warm": warm, "choices": choices, "trace": s.events})
				}
			}
			return ex
		}, resume, maxSched, 400)
		w.Flush()
		f.Close()
		o.summary(map[string]any{"traces": nTraces, "events": nEvents, "deadlocks": nDeadlock, "panics": nPanic, "truncated": trunc, "transient_blocks_resolved_by_patience": rescuedByPatience, "next": next, "violations": o.nV})
		os.Exit(0)
	})
}

func TestC14Hist(t *testing.T) {
	if os.Getenv("VERIF_CASES") == "" {
		t.Skip("VERIF_CASES not set")
	}
	var cf c14Conf
	_ = json.Unmarshal([]byte(os.Getenv("VERIF_CONF")), &cf)
	var hists [][]c14Req
	readCases(t, "VERIF_CASES", func(line []byte) {
		var h struct {
			Hist []c14Req `json:"hist"`
		}
		if err := json.Unmarshal(line, &h); err != nil {
			t.Fatalf("bad history: %v", err)
		}
		hists = append(hists, h.Hist)
	})
	synctest.Test(t, func(t *testing.T) {
		kinds := []string{"memory", "external"}
		if cf.OwnClock {
			kinds = []string{"external"}
		} else {
			utils.StartTimeStampUpdater()
		}
		time.Sleep(500 * time.Millisecond)
		o := newOut(t)
		var nReq, nHit, nEvictish, nAmbSkipped int
		for hi, hist := range hists {
			for _, kind := range kinds {
				// accounting (MaxBytes) is per middleware instance: a fresh instance per history
				var st fiber.Storage
				if kind == "external" {
					gs := newGatedStorage(newSched(), nil)
					if cf.OwnClock {
						gs.clock = func() uint32 { return uint32(time.Now().Unix()) }
						gs.t0 = gs.clock()
					}
					st = gs
				}
				h := cacheApp(cf, st, nil)
				for step, e := range hist {
					if e.Ev == "tick" {
						time.Sleep(time.Duration(e.D) * time.Second)
						continue
					}
					if e.Status == 0 {
						break // the simulated behaviour ended inside this request
					}
					nReq++
					stt, body, x, ctype := c14Do(h, e)
					if e.X == "hit" {
						nHit++
					}
					okCT := ctype == "text/x-"+e.Body
					// the encoding is part of every stored response; the origin's other headers are replayed on a hit when
					// StoreResponseHeaders is on (without the option a hit is not required to carry them)
					enc, xo, xm := c14Headers(c14LastRC)
					hdrNote := ""
					if enc != "enc-"+e.Body {
						okCT, hdrNote = false, "Content-Encoding "+enc
					}
					if e.X != "hit" || cf.StoreHeaders {
						if xo != "o-"+e.Body {
							okCT, hdrNote = false, "X-Origin "+xo
						} else if xm != "m1-"+e.Body+",m2-"+e.Body {
							okCT, hdrNote = false, "X-Multi "+xm
						}
					}
					if e.Amb {
						// a tie among equally old entries was broken during or before this request: its own outcome is still
						// determined, what follows is not
						if stt != e.Status || body != e.Body || x != e.X || !okCT {
							nAmbSkipped++
						}
						break
					}
					if stt != e.Status || body != e.Body || x != e.X || !okCT {
						o.violation(map[string]any{"check": "history-step-differs", "prop": "C14", "conf": cf, "storage": kind, "history": hist, "step": step,
							"expected": map[string]any{"status": e.Status, "body": e.Body, "x": e.X},
							"observed": map[string]any{"status": stt, "body": body, "x": x, "ctype": ctype, "header": hdrNote}})
						break
					}
				}
				if hi%97 == 0 && kind == kinds[0] {
					o.sample(map[string]any{"conf": cf, "history": hist})
				}
			}
			_ = nEvictish
		}
		o.summary(map[string]any{"histories": len(hists), "requests": nReq, "hits": nHit, "histories_cut_at_tie_eviction": nAmbSkipped, "violations": o.nV})
		os.Exit(0)
	})
}
