package harness

import (
	"crypto/tls"
	"encoding/json"
	"net"
	"testing"
	"time"

	"github.com/gofiber/fiber/v3"
	"github.com/valyala/fasthttp"
)

// C10: every (proxy configuration, peer, connection kind, forwarding headers) TLC enumerated from spec/TrustProxy.tla
// is run on a real app: IP, Host, Hostname, Scheme, BaseURL, Secure and IsProxyTrusted must equal the spec's outputs.

type c10Case struct {
	Cfg struct {
		Trust    bool     `json:"trust"`
		Classes  []string `json:"classes"`
		Proxies  []string `json:"proxies"`
		Header   string   `json:"header"`
		Validate bool     `json:"validate"`
	} `json:"cfg"`
	Peer string `json:"peer"`
	TLS  bool   `json:"tls"`
	Hdrs struct {
		Xff    string `json:"xff"`
		Xfhost bool   `json:"xfhost"`
		Scheme string `json:"scheme"`
	} `json:"hdrs"`
	Out struct {
		IP      string `json:"ip"`
		Host    string `json:"host"`
		Scheme  string `json:"scheme"`
		Secure  bool   `json:"secure"`
		Trusted bool   `json:"trusted"`
	} `json:"out"`
}

type fakeConn struct{ remote net.Addr }

func (fakeConn) Read([]byte) (int, error)         { return 0, net.ErrClosed }
func (fakeConn) Write(b []byte) (int, error)      { return len(b), nil }
func (fakeConn) Close() error                     { return nil }
func (fakeConn) LocalAddr() net.Addr              { return &net.TCPAddr{IP: net.IPv4(192, 0, 2, 1), Port: 443} }
func (f fakeConn) RemoteAddr() net.Addr           { return f.remote }
func (fakeConn) SetDeadline(time.Time) error      { return nil }
func (fakeConn) SetReadDeadline(time.Time) error  { return nil }
func (fakeConn) SetWriteDeadline(time.Time) error { return nil }

type fakeTLSConn struct{ fakeConn }

func (fakeTLSConn) Handshake() error                     { return nil }
func (fakeTLSConn) ConnectionState() tls.ConnectionState { return tls.ConnectionState{} }

type c10Obs struct {
	IP, Host, Hostname, Scheme, BaseURL string
	Secure, Trusted                     bool
}

func TestC10(t *testing.T) {
	o := newOut(t)
	defer o.close()
	type built struct {
		h   fasthttp.RequestHandler
		obs *c10Obs
	}
	apps := map[string]*built{}
	var n, nUntrustedWithHeaders, nTrusted, nBothForms int
	readCases(t, "VERIF_CASES", func(line []byte) {
		var cs c10Case
		if err := json.Unmarshal(line, &cs); err != nil {
			t.Fatalf("bad case %v", err)
		}
		n++
		key, _ := json.Marshal(cs.Cfg)
		b := apps[string(key)]
		if b == nil {
			b = &built{obs: &c10Obs{}}
			tp := fiber.TrustProxyConfig{Proxies: cs.Cfg.Proxies}
			for _, c := range cs.Cfg.Classes {
				switch c {
				case "loopback":
					tp.Loopback = true
				case "private":
					tp.Private = true
				case "linklocal":
					tp.LinkLocal = true
				}
			}
			app := fiber.New(fiber.Config{TrustProxy: cs.Cfg.Trust, TrustProxyConfig: tp, ProxyHeader: cs.Cfg.Header, EnableIPValidation: cs.Cfg.Validate})
			// Out(cfg, peer, ...) has no argument for other applications: a second application derived from this one's Config(),
			// trusting exactly the peers this one must not trust, is created and dropped before any request is served
			sib := app.Config()
			sib.TrustProxy = true
			sib.TrustProxyConfig.Proxies = []string{"203.0.113.0/24", "2001:db9::/32", "10.9.9.9"}
			_ = fiber.New(sib)
			app.Get("/", func(c fiber.Ctx) error {
				*b.obs = c10Obs{IP: c.IP(), Host: c.Host(), Hostname: c.Hostname(), Scheme: c.Scheme(), BaseURL: c.BaseURL(), Secure: c.Secure(), Trusted: c.IsProxyTrusted()}
				return nil
			})
			b.h = app.Handler()
			apps[string(key)] = b
		}
		// the peer address as a listener hands it over: the 16-byte form (v4 addresses as v4-mapped v6, what a dual-stack socket
		// reports) and, for v4 peers, the 4-byte form
		forms := map[string]net.IP{"16-byte": net.ParseIP(cs.Peer)}
		if v4 := net.ParseIP(cs.Peer).To4(); v4 != nil {
			forms["4-byte"] = v4
			nBothForms++
		}
		for form, ip := range forms {
			var fctx fasthttp.RequestCtx
			remote := &net.TCPAddr{IP: ip, Port: 40000}
			if cs.TLS {
				fctx.Init2(fakeTLSConn{fakeConn{remote}}, nil, false)
			} else {
				fctx.Init2(fakeConn{remote}, nil, false)
			}
			fctx.Request.Header.SetMethod("GET")
			fctx.Request.SetRequestURI("/")
			fctx.Request.Header.SetHost("real.example")
			xff := map[string]string{"one": "198.51.100.7", "list": "198.51.100.7, 10.0.0.1", "garbage": "not-an-ip", "garbage-then-ip": "not-an-ip, 198.51.100.8",
				"zone": "fe80::1%eth0", "zone-then-ip": "::1%<script>alert(1)</script>, 198.51.100.8"}[cs.Hdrs.Xff]
			if cs.Hdrs.Xff != "absent" {
				fctx.Request.Header.Set("X-Forwarded-For", xff)
				if cs.Cfg.Header != "" {
					fctx.Request.Header.Set(cs.Cfg.Header, xff)
				}
			}
			if cs.Hdrs.Xfhost {
				fctx.Request.Header.Set("X-Forwarded-Host", "spoof.example")
			}
			switch cs.Hdrs.Scheme {
			case "X-Forwarded-Proto=ftp":
				fctx.Request.Header.Set("X-Forwarded-Proto", "ftp")
			case "X-Url-Scheme=HTTPS":
				fctx.Request.Header.Set("X-Url-Scheme", "HTTPS")
			case "X-Forwarded-Proto", "X-Forwarded-Protocol", "X-Url-Scheme":
				fctx.Request.Header.Set(cs.Hdrs.Scheme, "https")
			case "X-Forwarded-Ssl":
				fctx.Request.Header.Set(cs.Hdrs.Scheme, "on")
			}
			*b.obs = c10Obs{}
			b.h(&fctx)
			expIP := map[string]string{"remote": remote.IP.String(), "empty": "", "raw-list": xff, "raw-garbage": xff, "raw-garbage-then-ip": xff, "raw-zone": xff, "raw-zone-then-ip": xff}[cs.Out.IP]
			if expIP == "" && cs.Out.IP != "empty" {
				expIP = cs.Out.IP
			}
			exp := c10Obs{IP: expIP, Host: cs.Out.Host, Hostname: cs.Out.Host, Scheme: cs.Out.Scheme, BaseURL: cs.Out.Scheme + "://" + cs.Out.Host, Secure: cs.Out.Secure, Trusted: cs.Out.Trusted}
			if form != "16-byte" {
				// counted once per case
			} else if cs.Out.Trusted {
				nTrusted++
			} else if cs.Hdrs.Xff != "absent" || cs.Hdrs.Xfhost || cs.Hdrs.Scheme != "absent" {
				nUntrustedWithHeaders++
			}
			if *b.obs != exp {
				field := ""
				switch {
				case b.obs.Trusted != exp.Trusted:
					field = "IsProxyTrusted"
				case b.obs.IP != exp.IP:
					field = "IP"
				case b.obs.Host != exp.Host || b.obs.Hostname != exp.Hostname:
					field = "Host"
				case b.obs.Scheme != exp.Scheme:
					field = "Scheme"
				case b.obs.Secure != exp.Secure:
					field = "Secure"
				default:
					field = "BaseURL"
				}
				o.violation(map[string]any{"check": "proxy-" + field, "prop": "C10", "cfg": cs.Cfg, "peer": cs.Peer, "tls": cs.TLS, "headers": cs.Hdrs,
					"addr_form": form, "expected": exp, "observed": *b.obs})
			}
		}
		if n%70001 == 1 {
			o.sample(map[string]any{"cfg": cs.Cfg, "peer": cs.Peer, "tls": cs.TLS, "headers": cs.Hdrs, "out": cs.Out})
		}
	})
	o.summary(map[string]any{"cases": n, "trusted": nTrusted, "untrusted_peer_with_forwarding_headers": nUntrustedWithHeaders, "v4_peers_in_both_address_forms": nBothForms, "violations": o.nV})
}
