package harness

import (
	"encoding/json"
	"fmt"
	"strconv"
	"strings"
	"testing"

	"github.com/gofiber/fiber/v3"
	"github.com/valyala/fasthttp"
)

// C09: every (Accept header, offer list) TLC enumerated from spec/Negotiation.tla with the offer the preference
// order selects; the abstract header is serialised in several spellings of the RFC grammar and handed to
// Accepts and Format on pooled contexts.

type negRange struct {
	Type   string     `json:"type"`
	Sub    string     `json:"sub"`
	Q      int        `json:"q"`
	Params [][]string `json:"params"`
}
type negOffer struct {
	Type   string     `json:"type"`
	Sub    string     `json:"sub"`
	Params [][]string `json:"params"`
	Ext    string     `json:"ext"`
}
type negCase struct {
	Kind       string     `json:"kind"`
	Header     []negRange `json:"header"`
	Offers     []negOffer `json:"offers"`
	Pick       int        `json:"pick"`
	FmtPlain   string     `json:"fmtPlain"`
	FmtDefault string     `json:"fmtDefault"`
}

func qStr(q, style int) string {
	switch q {
	case 1000:
		return []string{"1", "1.0", "1.000", "1"}[style%4]
	case 0:
		return []string{"0", "0.0", "0.000", "0"}[style%4]
	}
	s := fmt.Sprintf("0.%03d", q)
	if style%2 == 0 {
		s = strings.TrimRight(s, "0")
	}
	return s
}

func negHeader(rs []negRange, style int) string {
	var parts []string
	sep, psep := ", ", ";"
	if style%4 == 1 {
		sep, psep = " , ", " ; "
	}
	for _, r := range rs {
		s := r.Type + "/" + r.Sub
		for _, p := range r.Params {
			v := p[1]
			if style%4 == 2 {
				v = `"` + v + `"`
			}
			s += psep + p[0] + "=" + v
		}
		if r.Q != 1000 || style%4 == 1 {
			s += psep + "q=" + qStr(r.Q, style)
		}
		parts = append(parts, s)
	}
	if style%4 == 3 && len(parts) > 0 {
		parts = append(parts, parts[len(parts)-1]) // a duplicate of the last range changes nothing
	}
	return strings.Join(parts, sep)
}

func negOfferStr(of negOffer) string {
	if of.Ext != "" {
		return of.Ext
	}
	s := of.Type + "/" + of.Sub
	for _, p := range of.Params {
		s += ";" + p[0] + "=" + p[1]
	}
	return s
}

// token-list negotiation: the abstract tokens t1..t3 stand for real charsets / encodings / languages
var negTokens = map[string]map[string]string{
	"Accept-Charset":  {"t1": "utf-16", "t2": "iso-8859-1", "t3": "us-ascii", "*": "*", "t1x": "utf-16le"},
	"Accept-Encoding": {"t1": "gzip", "t2": "br", "t3": "deflate", "*": "*", "t1x": "gzip2"},
	"Accept-Language": {"t1": "en", "t2": "de", "t3": "fr", "*": "*", "t1x": "eng"},
}

func negTokenCase(app *fiber.App, o *out, cs *negCase, n int) (picked bool) {
	for _, hname := range []string{"Accept-Charset", "Accept-Encoding", "Accept-Language"} {
		tm := negTokens[hname]
		offers := make([]string, len(cs.Offers))
		for i, of := range cs.Offers {
			offers[i] = tm[of.Type]
		}
		exp := ""
		if cs.Pick > 0 {
			exp = offers[cs.Pick-1]
		}
		for style := 0; style < 5; style++ {
			var parts []string
			sep, psep := ", ", ";"
			if (style+n)%4 == 1 {
				sep, psep = " , ", " ; "
			}
			if (style+n)%4 == 2 {
				sep = ",, " // an empty list element is ignored (RFC 9110 5.6.1)
			}
			for _, r := range cs.Header {
				s := tm[r.Type]
				if r.Q != 1000 || (style+n)%4 == 1 {
					s += psep + "q=" + qStr(r.Q, style+n)
				}
				parts = append(parts, s)
			}
			if (style+n)%4 == 3 && len(parts) > 0 {
				parts = append(parts, parts[len(parts)-1])
			}
			if style == 4 && len(parts) > 0 {
				// a long list: sixteen ranges that serve no offer, with interleaved qualities, around and between the ranges of the case.
				// They change nothing (Negotiation.tla: only serving ranges take part in the choice; the order of the others is kept)
				fills := []string{";q=0.5", ";q=0.9", ";q=0.7", ""}
				var long []string
				k := 0
				for f := 0; f < 16; f++ {
					long = append(long, "zzfill"+strconv.Itoa(f)+fills[f%4])
					if f%4 == 1 && k < len(parts) {
						long = append(long, parts[k])
						k++
					}
				}
				parts = append(long, parts[k:]...)
			}
			hdr := strings.Join(parts, sep)
			fctx := &fasthttp.RequestCtx{}
			if len(cs.Header) > 0 {
				fctx.Request.Header.Set(hname, hdr)
			}
			c := app.AcquireCtx(fctx)
			var got, got2 string
			switch hname {
			case "Accept-Charset":
				got, got2 = c.AcceptsCharsets(offers...), c.AcceptsCharsets(offers...)
			case "Accept-Encoding":
				got, got2 = c.AcceptsEncodings(offers...), c.AcceptsEncodings(offers...)
			default:
				got, got2 = c.AcceptsLanguages(offers...), c.AcceptsLanguages(offers...)
			}
			app.ReleaseCtx(c)
			bad := ""
			switch {
			case got != exp:
				bad = "picks another offer"
			case got2 != got:
				bad = "is not stable on the same context"
			}
			if bad != "" {
				o.violation(map[string]any{"check": "negotiation-token", "prop": "C09", "what": hname + " negotiation " + bad, "header": hname, "value": hdr, "offers": offers,
					"expected": exp, "observed": got, "abstract": cs})
				return cs.Pick > 0
			}
		}
	}
	return cs.Pick > 0
}

func TestC09(t *testing.T) {
	o := newOut(t)
	defer o.close()
	app := fiber.New()
	var n, nPicked, nNone, nParam, nTok, nTokPicked int
	readCases(t, "VERIF_CASES", func(line []byte) {
		var cs negCase
		if err := json.Unmarshal(line, &cs); err != nil {
			t.Fatalf("bad case %v", err)
		}
		n++
		if cs.Kind == "token" {
			nTok++
			if negTokenCase(app, o, &cs, n) {
				nTokPicked++
			}
			return
		}
		offers := make([]string, len(cs.Offers))
		for i, of := range cs.Offers {
			offers[i] = negOfferStr(of)
		}
		exp := ""
		if cs.Pick > 0 {
			exp = offers[cs.Pick-1]
			nPicked++
		} else {
			nNone++
		}
		for _, r := range cs.Header {
			if len(r.Params) > 0 {
				nParam++
				break
			}
		}
		for style := 0; style < 4; style++ {
			hdr := negHeader(cs.Header, style+n)
			fctx := &fasthttp.RequestCtx{}
			if len(cs.Header) > 0 {
				fctx.Request.Header.Set("Accept", hdr)
			}
			c := app.AcquireCtx(fctx)
			got := c.Accepts(offers...)
			got2 := c.Accepts(offers...)
			// Format: which handler runs
			ran := -1
			fmts := make([]fiber.ResFmt, len(offers))
			for i := range offers {
				i := i
				fmts[i] = fiber.ResFmt{MediaType: offers[i], Handler: func(fiber.Ctx) error {
					if ran == -1 {
						ran = i
					}
					return nil
				}}
			}
			_ = c.Format(fmts...)
			fstatus := fctx.Response.StatusCode()
			// the same with a "default" handler at a varying position of the list
			dpos := (n + style) % (len(offers) + 1)
			if len(cs.Header) == 0 && dpos == 0 {
				dpos = len(offers) // without an Accept header the FIRST handler runs, whatever it is: keep "default" off the first place
			}
			ranD, defRan := -1, false
			var fmtsD []fiber.ResFmt
			for i := 0; i <= len(offers); i++ {
				if i == dpos {
					fmtsD = append(fmtsD, fiber.ResFmt{MediaType: "default", Handler: func(fiber.Ctx) error { defRan = true; return nil }})
				}
				if i < len(offers) {
					i := i
					fmtsD = append(fmtsD, fiber.ResFmt{MediaType: offers[i], Handler: func(fiber.Ctx) error {
						if ranD == -1 {
							ranD = i
						}
						return nil
					}})
				}
			}
			fctx.Response.Reset()
			_ = c.Format(fmtsD...)
			app.ReleaseCtx(c)
			bad := ""
			switch {
			case got != exp:
				bad = "Accepts picks another offer"
			case got2 != got:
				bad = "Accepts is not stable on the same context"
			case cs.Pick > 0 && (ran < 0 || offers[ran] != exp):
				bad = "Format runs another handler"
			case cs.FmtPlain == "406" && (ran != -1 || fstatus != 406):
				bad = "Format does not answer 406 when nothing is acceptable"
			case cs.FmtDefault == "offer" && (defRan || ranD < 0 || offers[ranD] != exp):
				bad = "Format with a default entry runs another handler"
			case cs.FmtDefault == "default" && (!defRan || ranD != -1):
				bad = "Format does not fall back to the default handler"
			}
			if bad != "" {
				o.violation(map[string]any{"check": "negotiation", "prop": "C09", "what": bad, "accept": hdr, "offers": offers, "expected": exp,
					"observed": got, "format_ran": ran, "default_pos": dpos, "default_ran": defRan, "ran_with_default": ranD, "abstract": cs})
				break
			}
		}
		if n%30011 == 1 {
			o.sample(map[string]any{"accept": negHeader(cs.Header, 1), "offers": offers, "pick": exp})
		}
	})
	o.summary(map[string]any{"cases": n, "picked": nPicked, "none_acceptable": nNone, "with_range_parameters": nParam,
		"token_list_cases": nTok, "token_list_picked": nTokPicked, "violations": o.nV})
}
