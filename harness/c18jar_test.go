package harness

import (
	"encoding/json"
	"fmt"
	"net"
	"os"
	"sort"
	"strings"
	"testing"
	"testing/synctest"
	"time"

	"github.com/gofiber/fiber/v3"
	"github.com/gofiber/fiber/v3/client"
	"github.com/valyala/fasthttp"
	"github.com/valyala/fasthttp/fasthttputil"
)

// C18 (cookie jar) forward conformance: histories of jar operations simulated by TLC from spec/CookieJar.tla
// (Set, Get, full HTTP exchanges whose responses carry Set-Cookie lines incl. deletions, clock ticks) are replayed
// on the real jar under the virtual clock; `seen` is what the specification says the jar returns / sends.

type jarCookie struct {
	Name  string   `json:"name"`
	Path  []string `json:"path"`
	Value string   `json:"value"`
	TTL   int      `json:"ttl"`
}
type jarEv struct {
	Op      string      `json:"op"`
	Host    string      `json:"host"`
	Path    []string    `json:"path"`
	Cookies []jarCookie `json:"cookies"`
	Seen    [][]string  `json:"seen"`
	D       int         `json:"d"`
}

func pairsKey(ps [][]string) string {
	var s []string
	for _, p := range ps {
		s = append(s, p[0]+"="+p[1])
	}
	sort.Strings(s)
	return strings.Join(s, ";")
}

func TestC18Jar(t *testing.T) {
	if os.Getenv("VERIF_CASES") == "" {
		t.Skip("VERIF_CASES not set")
	}
	var hists [][]jarEv
	readCases(t, "VERIF_CASES", func(line []byte) {
		var h struct {
			Hist []jarEv `json:"hist"`
		}
		if err := json.Unmarshal(line, &h); err != nil {
			t.Fatalf("bad history: %v", err)
		}
		hists = append(hists, h.Hist)
	})
	synctest.Test(t, func(t *testing.T) {
		time.Sleep(500 * time.Millisecond)
		o := newOut(t)
		// one in-memory server: replies with the Set-Cookie lines the request asks for and reports the Cookie header it saw
		app := fiber.New()
		app.Use(func(c fiber.Ctx) error {
			var cs []jarCookie
			_ = json.Unmarshal([]byte(c.Get("X-Set")), &cs)
			for _, k := range cs {
				ck := &fiber.Cookie{Name: k.Name, Value: k.Value, Path: join(k.Path)}
				switch {
				case k.TTL > 0:
					ck.Expires = time.Now().Add(time.Duration(k.TTL) * time.Second)
				case k.TTL < 0:
					ck.Expires = time.Now().Add(-24 * time.Hour)
				}
				c.Cookie(ck)
			}
			return c.SendString(string(c.Request().Header.Peek("Cookie")))
		})
		ln := fasthttputil.NewInmemoryListener()
		go func() { _ = app.Listener(ln, fiber.ListenConfig{DisableStartupMessage: true}) }()
		var nOps, nNonEmpty, nExpiredSeen, nDeletes int
		for hi, hist := range hists {
			jar := client.AcquireCookieJar()
			cl := client.New().SetDial(func(string) (net.Conn, error) { return ln.Dial() }).SetCookieJar(jar)
			for step, e := range hist {
				if e.Op == "tick" {
					time.Sleep(time.Duration(e.D) * time.Second)
					continue
				}
				nOps++
				url := "http://" + e.Host + join(e.Path)
				var got [][]string
				dup := false
				fail := ""
				switch e.Op {
				case "set":
					k := e.Cookies[0]
					ck := fasthttp.AcquireCookie()
					ck.SetKey(k.Name)
					ck.SetValue(k.Value)
					if len(k.Path) > 0 {
						ck.SetPath(join(k.Path))
					}
					switch {
					case k.TTL > 0:
						// off the tick grid, like an Expires attribute (whole seconds) that travelled over HTTP: no operation
						// of a history falls on a deadline instant, where the statement leaves the outcome open
						ck.SetExpire(time.Now().Add(time.Duration(k.TTL)*time.Second - 250*time.Millisecond))
					case k.TTL < 0:
						ck.SetExpire(time.Now().Add(-24 * time.Hour))
						nDeletes++
					}
					u := fasthttp.AcquireURI()
					_ = u.Parse(nil, []byte("http://"+e.Host+"/"))
					jar.Set(u, ck)
					continue
				case "get":
					u := fasthttp.AcquireURI()
					_ = u.Parse(nil, []byte(url))
					seenIdent := map[string]bool{}
					for _, c := range jar.Get(u) {
						got = append(got, []string{string(c.Key()), string(c.Value())})
						id := string(c.Key()) + "\x00" + string(c.Path())
						if seenIdent[id] {
							dup = true
						}
						seenIdent[id] = true
					}
					if pairsKeyMulti(got) != pairsKeyMulti(e.Seen) && !sameAsSet(got, e.Seen) {
						fail = "jar.Get returns other cookies than the specification"
					} else if dup {
						fail = "jar.Get returns a cookie more than once"
					}
				case "exchange":
					b, _ := json.Marshal(e.Cookies)
					for _, k := range e.Cookies {
						if k.TTL < 0 {
							nDeletes++
						}
					}
					resp, err := cl.R().SetHeader("X-Set", string(b)).Get(url)
					if err != nil {
						fail = "exchange failed: " + err.Error()
						break
					}
					hdr := string(resp.Body())
					resp.Close()
					names := map[string]bool{}
					for _, kv := range strings.Split(hdr, ";") {
						kv = strings.TrimSpace(kv)
						if kv == "" {
							continue
						}
						nv := strings.SplitN(kv, "=", 2)
						if len(nv) != 2 {
							continue
						}
						got = append(got, nv)
						names[nv[0]] = true
					}
					allowed := map[string]bool{}
					need := map[string]bool{}
					for _, p := range e.Seen {
						allowed[p[0]+"="+p[1]] = true
						need[p[0]] = true
					}
					for _, g := range got {
						if !allowed[g[0]+"="+g[1]] {
							fail = "Cookie header carries a cookie the specification does not make visible"
						}
					}
					for n := range need {
						if !names[n] {
							fail = "Cookie header lacks a visible cookie"
						}
					}
				}
				if len(e.Seen) > 0 {
					nNonEmpty++
				}
				if fail != "" {
					nonroot := false
					for _, h := range hist[:step+1] {
						if len(h.Path) > 1 {
							nonroot = true
						}
						for _, k := range h.Cookies {
							if len(k.Path) > 1 {
								nonroot = true
							}
						}
					}
					o.violation(map[string]any{"check": "jar-" + e.Op, "prop": "C18", "what": fail, "history": hist[:step+1], "step": step,
						"uses_nonroot_path": fmt.Sprint(nonroot),
						"expected_pairs":    pairsKey(e.Seen), "observed_pairs": pairsKey(got), "url": url})
					break
				}
			}
			if hi%211 == 0 {
				o.sample(map[string]any{"history": hist})
			}
			_ = nExpiredSeen
		}
		o.summary(map[string]any{"histories": len(hists), "ops": nOps, "ops_with_visible_cookies": nNonEmpty, "deletions": nDeletes, "violations": o.nV})
		os.Exit(0)
	})
}

func pairsKeyMulti(ps [][]string) string { return pairsKey(ps) + fmt.Sprint("#", len(ps)) }

// the specification's `seen` is a set of pairs; two cookies with equal name and value but different paths are one pair there
func sameAsSet(got, exp [][]string) bool {
	a, b := map[string]bool{}, map[string]bool{}
	for _, p := range got {
		a[p[0]+"="+p[1]] = true
	}
	for _, p := range exp {
		b[p[0]+"="+p[1]] = true
	}
	if len(a) != len(b) {
		return false
	}
	for k := range a {
		if !b[k] {
			return false
		}
	}
	return true
}
