package harness

import (
	"context"
	"encoding/json"
	"fmt"
	"net"
	"os"
	"sort"
	"strings"
	"testing"
	"time"

	"github.com/gofiber/fiber/v3"
	"github.com/gofiber/fiber/v3/client"
	"github.com/valyala/fasthttp/fasthttputil"
)

// C18 (request assembly) forward conformance: every configuration TLC enumerated from spec/ClientAssemble.tla
// is applied to a real client / request pair, sent over an in-memory connection, and what a fiber server sees is
// compared with what the specification says arrives.  Sent twice: the result must be a function of the configuration.

type asmLvl struct {
	Client  string `json:"client"`
	Request string `json:"request"`
}
type asmArr struct {
	Lvl string `json:"lvl"`
	V   string `json:"v"`
}
type asmCase struct {
	Cfg     map[string]asmLvl   `json:"cfg"`
	Arrives map[string][]asmArr `json:"arrives"`
	Cut     bool                `json:"cut"` // the request is cut off before the reply can arrive (short timeout or early context deadline)
}

func asmValue(comp, class, lvl string) string {
	switch class {
	case "plain":
		return "pl-" + lvl + "-" + comp
	case "empty":
		return ""
	}
	switch comp { // "esc": bytes that need escaping in that position
	case "cookie":
		return "a-b&c=d/" + lvl
	case "param":
		return "a b&c=d?é" + lvl
	case "query":
		return "a b&c=d/é+#" + lvl
	}
	return "a b&c=d/;,\"(x) " + lvl
}

func TestC18Asm(t *testing.T) {
	if os.Getenv("VERIF_CASES") == "" {
		t.Skip("VERIF_CASES not set")
	}
	o := newOut(t)
	defer o.close()
	app := fiber.New(fiber.Config{UnescapePath: true})
	app.Get("/p/:id", func(c fiber.Ctx) error {
		var q []string
		for _, v := range c.Request().URI().QueryArgs().PeekMulti("q") {
			q = append(q, string(v))
		}
		var h []string
		for _, v := range c.Request().Header.PeekAll("X-H") {
			h = append(h, string(v))
		}
		return c.JSON(map[string]any{"header": h, "query": q, "cookie": c.Cookies("ck", "\x00absent"), "hasCookie": c.Request().Header.Cookie("ck") != nil,
			"ua": c.Get("User-Agent"), "referer": c.Get("Referer"), "param": c.Params("id")})
	})
	app.Get("/slow", func(c fiber.Ctx) error { time.Sleep(150 * time.Millisecond); return c.SendString("slow") })
	app.Get("/veryslow", func(c fiber.Ctx) error { time.Sleep(1500 * time.Millisecond); return c.SendString("late") })
	ln := fasthttputil.NewInmemoryListener()
	go func() { _ = app.Listener(ln, fiber.ListenConfig{DisableStartupMessage: true}) }()
	var n, nSkipped, nBoth, nTimeout int
	readCases(t, "VERIF_CASES", func(line []byte) {
		var cs asmCase
		if err := json.Unmarshal(line, &cs); err != nil {
			t.Fatalf("bad case %v", err)
		}
		if tl, ok := cs.Cfg["timeout"]; ok && (tl.Client != "none" || tl.Request != "none" || cs.Cfg["ctx"].Request != "none") {
			// the timeout, observed on a slow endpoint (150 ms): long = 20 s, short = 30 ms.  A request whose effective timeout is long
			// is answered (a short one is not asserted: whether 30 ms or the reply comes first is timing); then a request of another
			// client without any timeout, which may well be served by the pooled objects of the first, is answered too.
			nTimeout++
			n++
			dur := map[string]time.Duration{"plain": 20 * time.Second, "esc": 30 * time.Millisecond}
			for rep := 0; rep < 3; rep++ {
				cl := client.New().SetDial(func(string) (net.Conn, error) { return ln.Dial() })
				if tl.Client != "none" {
					cl.SetTimeout(dur[tl.Client])
				}
				rq := cl.R()
				if tl.Request != "none" {
					rq.SetTimeout(dur[tl.Request])
				}
				// first on the fast endpoint, where also a short timeout normally lets the request complete and be released to the pool
				if respF, errF := cl.R().Get("http://asm.test/p/x"); errF == nil {
					respF.Close()
				}
				if tl.Request != "none" {
					if respF, errF := cl.R().SetTimeout(dur[tl.Request]).Get("http://asm.test/p/x"); errF == nil {
						respF.Close()
					}
				}
				switch cs.Cfg["ctx"].Request {
				case "later":
					ctx, cancel := context.WithTimeout(context.Background(), 60*time.Second)
					defer cancel()
					rq.SetContext(ctx)
				case "sooner":
					ctx, cancel := context.WithTimeout(context.Background(), 30*time.Millisecond)
					defer cancel()
					rq.SetContext(ctx)
				}
				if cs.Cut {
					// the reply cannot arrive before 1.5 s; whatever ends first (30 ms) must end the request with an error
					t0 := time.Now()
					respC, errC := rq.Get("http://asm.test/veryslow")
					if errC == nil {
						body := string(respC.Body())
						respC.Close()
						o.violation(map[string]any{"check": "assembly-timeout", "prop": "C18", "cfg": cs.Cfg, "what": "a request whose timeout / context deadline passed long before the reply was handed the late reply",
							"observed": body, "after_ms": time.Since(t0).Milliseconds()})
						return
					}
				} else {
					resp, err := rq.Get("http://asm.test/slow")
					if err == nil {
						resp.Close()
					} else {
						o.violation(map[string]any{"check": "assembly-timeout", "prop": "C18", "cfg": cs.Cfg, "what": "a request with a long (or no) effective timeout and no early context deadline was cut off", "observed": err.Error()})
						return
					}
				}
				cl2 := client.New().SetDial(func(string) (net.Conn, error) { return ln.Dial() })
				resp2, err2 := cl2.R().Get("http://asm.test/slow")
				if err2 != nil {
					o.violation(map[string]any{"check": "assembly-timeout", "prop": "C18", "cfg": cs.Cfg, "what": "the next request, which has no timeout configured at any level, was cut off", "observed": err2.Error()})
					return
				}
				resp2.Close()
			}
			return
		}
		// an empty string given for user agent / referer / path parameter is "not configured" for the client: outside the statement
		for _, k := range []string{"ua", "referer", "param", "cookie"} { // (an empty cookie value cannot be told from an absent cookie)
			if cs.Cfg[k].Client == "empty" || cs.Cfg[k].Request == "empty" {
				nSkipped++
				return
			}
		}
		n++
		send := func() (map[string]any, error) {
			cl := client.New().SetDial(func(string) (net.Conn, error) { return ln.Dial() })
			rq := cl.R()
			for comp, l := range cs.Cfg {
				if l.Client != "none" {
					v := asmValue(comp, l.Client, "client")
					switch comp {
					case "header":
						cl.AddHeader("X-H", v)
					case "query":
						cl.AddParam("q", v)
					case "cookie":
						cl.SetCookie("ck", v)
					case "ua":
						cl.SetUserAgent(v)
					case "referer":
						cl.SetReferer(v)
					case "param":
						cl.SetPathParam("id", v)
					}
				}
				if l.Request != "none" {
					v := asmValue(comp, l.Request, "request")
					switch comp {
					case "header":
						rq.AddHeader("X-H", v)
					case "query":
						rq.AddParam("q", v)
					case "cookie":
						rq.SetCookie("ck", v)
					case "ua":
						rq.SetUserAgent(v)
					case "referer":
						rq.SetReferer(v)
					case "param":
						rq.SetPathParam("id", v)
					}
				}
			}
			resp, err := rq.Get("http://asm.test/p/:id")
			if err != nil {
				return nil, err
			}
			defer resp.Close()
			var m map[string]any
			if err := json.Unmarshal(resp.Body(), &m); err != nil {
				return nil, fmt.Errorf("status %d body %q", resp.StatusCode(), resp.Body())
			}
			return m, nil
		}
		got, err := send()
		got2, err2 := send()
		exp := map[string]any{}
		for comp, arr := range cs.Arrives {
			if comp == "timeout" {
				continue // observed on the slow endpoint above, not in the request the server sees
			}
			var vs []string
			for _, a := range arr {
				vs = append(vs, asmValue(comp, a.V, a.Lvl))
			}
			switch comp {
			case "header", "query":
				sort.Strings(vs)
				exp[comp] = strings.Join(vs, "\x01")
				if len(vs) == 2 {
					nBoth++
				}
			case "param":
				if len(vs) == 0 {
					exp[comp] = ":id"
				} else {
					exp[comp] = vs[0]
				}
			case "cookie":
				if len(vs) == 0 {
					exp[comp] = "\x00absent"
				} else {
					exp[comp] = vs[0]
				}
			default:
				if len(vs) == 0 {
					exp[comp] = "*default*"
				} else {
					exp[comp] = vs[0]
				}
			}
		}
		norm := func(m map[string]any) map[string]any {
			r := map[string]any{}
			if m == nil {
				return r
			}
			for _, k := range []string{"header", "query"} {
				var vs []string
				if l, ok := m[k].([]any); ok {
					for _, x := range l {
						vs = append(vs, fmt.Sprint(x))
					}
				}
				sort.Strings(vs)
				r[k] = strings.Join(vs, "\x01")
			}
			r["cookie"], r["param"] = m["cookie"], m["param"]
			if hc, _ := m["hasCookie"].(bool); !hc {
				r["cookie"] = "\x00absent"
			}
			for _, k := range []string{"ua", "referer"} {
				r[k] = m[k]
				if len(cs.Arrives[k]) == 0 {
					r[k] = "*default*" // whatever the client sends by default
				}
			}
			return r
		}
		g1, g2 := norm(got), norm(got2)
		bad := ""
		switch {
		case err != nil || err2 != nil:
			bad = fmt.Sprint("request failed: ", err, err2)
		case fmt.Sprint(g1) != fmt.Sprint(g2):
			bad = "two sends of the same configuration differ"
		case fmt.Sprint(g1) != fmt.Sprint(exp):
			bad = "server saw something else than configured"
		}
		if bad != "" {
			o.violation(map[string]any{"check": "assemble", "prop": "C18", "what": bad, "cfg": cs.Cfg, "expected": exp, "observed": g1, "observed2": g2})
		}
		if n%499 == 1 {
			o.sample(map[string]any{"cfg": cs.Cfg, "server_saw": g1})
		}
	})
	o.summary(map[string]any{"cases": n, "skipped_empty_precedence_values": nSkipped, "cases_with_both_levels_additive": nBoth, "timeout_configurations": nTimeout, "violations": o.nV})
}
