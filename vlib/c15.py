"""C15: sessions (spec/Session.tla): simulated histories replayed through middleware and store under the virtual clock."""
import collections

from . import core, generic


def check(run):
    run._binary = run.build_harness()
    nh = 2500 if run.tier == "thorough" else 300
    tot = collections.Counter()
    for cfg, absv, name in (("Session_Hist.cfg", 9, "session_abs"), ("Session_Hist_noabs.cfg", 0, "session_noabs"),
                            # one session kept alive by a single client across its idle and absolute deadlines (store API: Get, Get again, Save)
                            ("Session_Hist_life.cfg", 9, "session_life"),
                            # every request of the one client obtains its session from the store twice
                            ("Session_Hist_twoget.cfg", 9, "session_twoget"),
                            # background tasks on the store API (GetByID, Set, Save) between a client's requests, time passing freely
                            ("Session_Hist_byid.cfg", 9, "session_byid")):
        n, s = generic.gen_replay(run, "Session", cfg, "TestC15", name, env={"VERIF_ABS": absv}, workers=1, heap="4g",
                                  simulate="num=%d" % (nh * 2 if name == "session_life" else nh), depth=40, tag="HIST", dedupe=True,
                                  confirm_case=lambda v: {"hist": v["history"], "mode": v["mode"]})
        if s["histories"] != n:
            raise core.Inconclusive("driver did not consume every history")
        for k, v in s.items():
            if isinstance(v, int):
                tot[k] += v
    run.evaluations = tot["requests"]
    run.traces = tot["histories"] * 4
    run.nontrivial = tot["requests_loading_a_live_session"] + tot["requests_presenting_a_dead_id"] + tot["requests_presenting_a_forged_id"]
    run.rule = ("TLC simulates histories of Session.tla (requests = begin, set/delete (also after a destroy)/destroy/regenerate/reset, a second store.Get for a loaded session, end; store GetByID/Delete; a focused configuration keeps one session alive across its absolute deadline; even clock ticks "
                "against odd idle/absolute timeouts so that no request lands on a deadline; presented id: none, any id ever issued, forged) with the session "
                "each request must see; each history is replayed under the virtual clock through the real middleware and store for cookie/header/query sources "
                "on memory and external storage with a counting KeyGenerator (ids comparable with the spec's). Compared: id, Fresh, data at begin, ids after "
                "rotation, the id handed back, GetByID results. Non-trivial = requests presenting some id.")
    run.extra.update(dict(tot))
    run.extra["violations_by_check"] = dict(collections.Counter(v["check"] for v in run.violations))
    run.assumptions = ["sequential histories (concurrent same-id requests are not explored)", "Regenerate keeps the data and the absolute deadline (same session, new name)"]
