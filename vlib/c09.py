"""C09: content negotiation preference order (spec/Negotiation.tla) vs Accepts/Format."""
import collections

from . import core, generic


def check(run):
    run._binary = run.build_harness()
    n, s = 0, collections.Counter()
    for cfg, name in ((("MC_Negotiation.cfg", "negotiation"), ("MC_Negotiation_wide.cfg", "negotiation_wide")) if run.tier == "thorough" else (("MC_Negotiation_quick.cfg", "negotiation"),)):
        n1, s1 = generic.gen_replay(run, "Negotiation", cfg, "TestC09", name, heap="12g")
        if s1["cases"] != n1:
            raise core.Inconclusive("driver did not consume every case")
        n += n1
        for k, v in s1.items():
            if isinstance(v, int):
                s[k] += v
    run.evaluations = 4 * n
    run.traces = n
    run.nontrivial = s["picked"] + s["token_list_picked"]
    run.exhaustive = True
    run.rule = ("TLC enumerates every Accept header of <= 2 ranges (thorough: <= 3 ranges x <= 2 offers, and <= 2 ranges over a wider q / parameter pool x <= 3 offers) over "
                "{*/*, text/*, text/html, text/plain, application/json} x q-values x parameter sets and every offer list (MIME types with and without parameters, file extensions) and computes the offer the "
                "RFC 9110 preference order selects (plus ZeroNeverSelects / AbsentSelectsFirst on the function); each case is serialised in 4 spellings "
                "(OWS, q=0.5/0.500, quoted parameter values, duplicated range) and given to Accepts (twice, pooled context) and Format. "
                "Token lists: every header of <= 3 (4) ranges over three tokens and * x q-values and every offer list, decided by the same order, "
                "given to AcceptsCharsets, AcceptsEncodings and AcceptsLanguages with real token names. "
                "Non-trivial = cases in which an offer is selected.")
    run.extra["driver_summary"] = dict(s)
    run.extra["violations_by_check"] = dict(collections.Counter(v["check"] for v in run.violations))
    run.assumptions = ["tokens are lower-case (the statement does not promise case-insensitive matching)",
                       "token lists: the three tokens are no prefixes of one another (the code's prefix rule for tokens, e.g. language ranges, is outside the statement)"]
