"""C01: abstract dispatch (spec/Router.tla) over the measured individual match relation vs the real router."""
import collections
import json
import os

from . import core

PATS = ["/", "/*", "/a", "/ab", "/abc", "/abc/d", "/:p", "/a/:p?", "/abc/:p"]
PATHS = ["/", "/a", "/a/", "/ab", "/abc", "/abc/d", "/abc/x", "/a/x", "/zz", "/ABC"]
EQUIV = [("/abc", "/ABC", ["nocase"]), ("/abc", "/%61bc", ["unesc"]), ("/abc", "/%41bc", ["unesc", "nocase"]), ("/abc", "/%41%42C", ["unesc", "nocase"]),
         ("/abc/d", "/abc/%44", ["unesc", "nocase"]), ("/abc/d", "/abc/%64", ["unesc"]), ("/abc/d", "/ABC/D", ["nocase"]), ("/abc", "/abc/", ["nonstrict"])]
NORM_PATS = ["/abc", "/abc/d", "/abc/:p", "/:p", "/*"]
NORM_PATHS = ["/abc", "/ABC", "/%61bc", "/%41bc", "/%41%42C", "/abc/", "/abc/d", "/abc/%44", "/abc/%64", "/ABC/D"]
DEFAULT = {"cs": False, "strict": False, "unesc": False}
ALLON = {"cs": True, "strict": True, "unesc": True}


def tla_str(s):
    return '"' + s.replace("\\", "\\\\").replace('"', '\\"') + '"'


def tla_set(xs):
    return "{" + ", ".join(tla_str(x) for x in xs) + "}"


def variant(run, binary, cfg, ctx, pats, paths, max_routes, tag, multi=False, vias=("app",)):
    # 1. measure the individual match relation on the real code
    inp = os.path.join(run.work, "c01_in_%s.json" % tag)
    outp = os.path.join(run.work, "c01_measure_%s.txt" % tag)
    with open(inp, "w") as fh:
        json.dump({"pats": pats, "paths": paths, "cfg": cfg, "ctx": ctx}, fh)
    run.drive(binary, "TestC01Measure", env={"VERIF_IN": inp, "VERIF_OUT": outp})
    triples = None
    for line in open(outp):
        if line.startswith("SUMMARY "):
            triples = json.loads(line[8:])["triples"]
    if triples is None:
        raise core.Inconclusive("measurement failed")
    data = ["---- MODULE Router_data ----",
            "D_Pats == " + tla_set(pats),
            "D_Paths == " + tla_set(paths),
            "D_MatchSet == {" + ", ".join("<<%s, %s, %s>>" % tuple(tla_str(x) for x in t) for t in triples) + "}",
            'D_Methods == {"GET", "POST", "PUT"}',
            'D_RouteMethods == {"GET", "POST"}',
            "D_MaxRoutes == %d" % max_routes,
            'D_RwTargets == {"/abc"}',
            'D_OvTargets == {"POST"}',
            'D_MultiKinds == %s' % ('{"GET+POST"}' if multi else '{}'),
            'D_Vias == ' + tla_set(vias),
            'D_CfgFlags == ' + tla_set([f for f, on in (("nocase", not cfg["cs"]), ("unesc", cfg["unesc"]), ("nonstrict", not cfg["strict"])) if on]),
            "===="]
    r = run.tlc("MC_Router", "MC_Router.cfg", workers=12, heap="8g", timeout=3000,
                defines={"Router_data.tla": "\n".join(data) + "\n"}, name="Router_" + tag)
    if "Invariant NormRespected is violated" in r["out"] or "invariant of NormRespected is equal to FALSE" in r["out"]:
        # the measured relation itself breaks the configuration's equalities: name the witnesses (same table as EquivTable in Router.tla)
        ms = set(tuple(t) for t in triples)
        flags = set(f for f, on in (("nocase", not cfg["cs"]), ("unesc", cfg["unesc"]), ("nonstrict", not cfg["strict"])) if on)
        viol = []
        for a, b, needs in EQUIV:
            if set(needs) <= flags and a in paths and b in paths:
                for pat in pats:
                    for k in ("use", "ep"):
                        if ((pat, k, a) in ms) != ((pat, k, b) in ms):
                            viol.append({"check": "equal-paths-handled-differently", "prop": "C01", "cfg": cfg, "ctx": ctx, "route": k + " " + pat,
                                         "path_a": a, "path_b": b, "equal_because": needs,
                                         "observed": {"a_handled": (pat, k, a) in ms, "b_handled": (pat, k, b) in ms}})
        if not viol:
            raise core.Inconclusive("NormRespected violated but no witness found")
        return 0, len(triples), viol, [], {"cases": 0, "distinct_ran": 0, "with_rewrite_or_override": 0, "multi_handler": 0, "n405": 0, "n404": 0,
                                           "registrations_through_group_or_list": 0}
    if r["rc"] != 0:
        raise core.Inconclusive("TLC run Router_%s failed rc=%d\n%s" % (tag, r["rc"], "\n".join(r["out"].splitlines()[-40:])))
    cases = os.path.join(run.work, "c01_cases_%s.ndjson" % tag)
    n = core.write_cases(core.parse_cases(r["out"]), cases)
    if n == 0:
        raise core.Inconclusive("no cases")
    res = os.path.join(run.work, "c01_out_%s.txt" % tag)
    run.drive(binary, "TestC01", env={"VERIF_CASES": cases, "VERIF_OUT": res, "VERIF_CFG": json.dumps(cfg), "VERIF_CTX": ctx})
    viol, samples, summary = [], [], None
    for line in open(res):
        tagc, _, js = line.partition(" ")
        if tagc == "V":
            viol.append(json.loads(js))
        elif tagc == "S":
            samples.append(json.loads(js))
        elif tagc == "SUMMARY":
            summary = json.loads(js)
    if summary is None or summary["cases"] != n:
        raise core.Inconclusive("driver did not finish")
    return n, len(triples), viol, samples, summary


def check(run):
    binary = run.build_harness()
    if run.tier == "quick":
        variants = [(DEFAULT, "default", PATS, PATHS, 2, "def"),
                    (ALLON, "default", PATS, PATHS, 2, "allon"),
                    (DEFAULT, "custom", PATS[:6] + PATS[7:8], PATHS, 2, "custom"),
                    # three registrations incl. multi-method ones over a tiny pool: the smallest tables in which an endpoint, a later
                    # middleware and another method's endpoint meet, or a multi-method registration is followed by a duplicate
                    (DEFAULT, "default", ["/", "/a"], ["/", "/a", "/abc"], 3, "three_small", True),
                    (DEFAULT, "custom", ["/", "/a"], ["/", "/abc"], 3, "three_small_custom", True),
                    # spellings of a path that the configuration declares equal (NormRespected), one registration
                    (DEFAULT, "default", NORM_PATS, NORM_PATHS, 1, "norm_def"),
                    ({"cs": False, "strict": True, "unesc": True}, "default", NORM_PATS, NORM_PATHS, 1, "norm_unesc"),
                    ({"cs": True, "strict": False, "unesc": True}, "custom", NORM_PATS, NORM_PATHS, 1, "norm_unesc_cs_custom"),
                    # the way a registration is written: through a group, with the prefix in a list
                    (DEFAULT, "default", ["/", "/a", "/abc/d", "/abc/:p"], ["/", "/a", "/abc", "/abc/d", "/abc/x", "/zz"], 2, "vias", False, ("app", "group", "list", "grouplist")),
                    (ALLON, "custom", ["/a", "/abc/d", "/:p"], ["/a", "/abc", "/abc/d", "/abc/x"], 2, "vias_custom", False, ("app", "group", "list", "grouplist"))]
    else:
        variants = []
        i = 0
        for cs in (False, True):
            for st in (False, True):
                for un in (False, True):
                    for ctx in ("default", "custom"):
                        i += 1
                        variants.append(({"cs": cs, "strict": st, "unesc": un}, ctx, PATS, PATHS, 2, "v%d" % i))
        sub = ["/", "/a", "/abc", "/:p", "/abc/:p"]
        variants.append((DEFAULT, "default", sub, ["/", "/a", "/abc", "/abc/x", "/zz"], 3, "three"))
        variants.append((DEFAULT, "default", ["/", "/a", "/:p"], ["/", "/a", "/abc"], 3, "three_multi", True))
        for j, (cs, st, un, ctx) in enumerate((c, t, u, x) for c in (False, True) for t in (False, True) for u in (False, True) for x in ("default", "custom")):
            variants.append(({"cs": cs, "strict": st, "unesc": un}, ctx, NORM_PATS, NORM_PATHS, 2, "norm%d" % j))
        variants.append((DEFAULT, "default", PATS, PATHS, 2, "vias", False, ("app", "group", "list", "grouplist")))
        variants.append((ALLON, "custom", PATS[:6] + PATS[7:8], PATHS, 2, "vias_custom", False, ("app", "group", "list", "grouplist")))
        variants.append((DEFAULT, "default", ["/a", "/abc/d", "/abc/:p"], ["/a", "/abc", "/abc/d", "/abc/x"], 3, "vias_three", True, ("app", "group", "list", "grouplist")))
    tot = collections.Counter()
    for v in variants:
        cfg, ctx, pats, paths, mr, tag = v[:6]
        n, nm, viol, samples, summary = variant(run, binary, cfg, ctx, pats, paths, mr, tag, multi=len(v) > 6 and v[6],
                                                   vias=v[7] if len(v) > 7 else ("app",))
        for v in viol:
            run.violation(v)
        run.evaluations += n
        run.traces += n
        run.nontrivial += summary["distinct_ran"]
        for k in ("with_rewrite_or_override", "multi_handler", "n405", "n404", "registrations_through_group_or_list"):
            tot[k] += summary[k]
        tot["measured_match_pairs"] += nm
        for s in samples[:2]:
            run.sample(s, limit=6)
    run.exhaustive = True
    run.rule = ("the individual match relation is measured on the real router (one app per route); TLC enumerates every table of "
                "<= MaxRoutes registrations over {use, GET, POST} x pattern pool x behaviours {next, stop, rewrite, method override (middleware only)} "
                "x the way each registration is written (directly, through a group, with the prefix in a list: extra variants) x every request (3 methods x path pool) and prescribes handler sequence, status and Allow; each scenario is replayed on a "
                "fresh real app. Non-trivial = scenarios in which at least one handler ran.")
    run.extra.update(dict(tot))
    run.extra["violations_by_check"] = dict(collections.Counter(v["check"] for v in run.violations))
    run.assumptions = ["HEAD and RestartRouting are not exercised", "rewrite/override behaviours only in middleware (Use) routes",
                       "duplicate-path merging is modelled as documented behaviour, not flagged"]
