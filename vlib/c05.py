"""C05: request isolation despite context pooling (spec/CtxLifecycle.tla), differential against a fresh app."""
import collections

from . import core, generic


def check(run):
    run._binary = run.build_harness()
    run.tlc_must_pass("CtxLifecycle", "MC_CtxLifecycle_thorough.cfg" if run.tier == "quick" else "MC_CtxLifecycle_thorough.cfg", workers=4, heap="4g", name="CtxLifecycle_design")
    m = run.tlc("CtxLifecycle", "MC_CtxLifecycle_mutant.cfg", workers=4, heap="4g", name="CtxLifecycle_mutant")
    if "Invariant NoForeignData is violated" not in m["out"]:
        raise core.Inconclusive("vacuity guard: a reset discipline that forgets the flash field must violate NoForeignData")
    run.extra["vacuity_guard"] = "CtxLifecycle.tla without the flash field in ResetFields violates NoForeignData"
    n, s = generic.gen_replay(run, "CtxLifecycle", "MC_CtxLifecycle_thorough.cfg" if run.tier == "thorough" else "MC_CtxLifecycle.cfg", "TestC05", "ctxlifecycle", workers=4)
    if s["cases"] != n:
        raise core.Inconclusive("driver did not consume every case")
    # the same histories run by 8 goroutines at once against one app
    import json, os
    outp = os.path.join(run.work, "conc_out.txt")
    run.drive(run._binary, "TestC05Conc", env={"VERIF_CASES": os.path.join(run.work, "ctxlifecycle_cases.ndjson"), "VERIF_OUT": outp}, timeout=1800, tag="conc")
    viol, _samples, sc = generic.summary_of(outp)
    if sc is None:
        raise core.Inconclusive("driver TestC05Conc did not finish")
    for v in viol:
        run.violation(v)
    run.evaluations = n + sc["probes"]
    run.traces = run.evaluations
    run.nontrivial = s["probe_served_by_the_context_of_the_preceding_request"] + sc["requests_served_by_a_context_last_used_on_another_goroutine"]
    run.extra["concurrent_summary"] = sc
    run.exhaustive = True
    run.rule = ("TLC checks the reset discipline on the taint model (NoForeignData; forgetting one field must fail) and enumerates every history of <= 2 (thorough: 3) "
                "preceding requests from 20 kinds (params, views rendered without bind data of their own after ViewBind / Locals, JSONP behind a middleware that keeps working after the handler returned, optional parameter, SendFile with MaxAge, locals, view bindings, redirect with messages / input, full / partial / truncated flash cookies, query binding "
                "with and without automatic error handling, response headers and cookies, base URL, handler error, 405) followed by each of 10 probes (a view rendered without bind data, JSONP, plain, params, partial / short flash cookie, un-bindable query, empty catch-all, empty optional parameter, SendFile without options); each history is served "
                "from wire bytes on one recycled RequestCtx on one goroutine with GC off and the probe's observation vector (params, locals, messages, old input, bind result "
                "and mode, route, base URL, view bindings, status, response headers, body) is compared with a fresh app's. Non-trivial = probes really served by the pooled "
                "context of the preceding request (pointer identity). The same histories are then run by 8 goroutines at once against one app (contexts migrate "
                "between goroutines through the shared pools) with the same comparison.")
    run.extra["driver_summary"] = s
    run.extra["violations_by_check"] = dict(collections.Counter(v["check"] for v in run.violations))
    run.assumptions = ["the concurrent run has no controlled schedule (Go scheduler decides the mix; migrations are counted)", "sync.Pool hands back the context released last (measured, not assumed: see distinct_nontrivial)"]
