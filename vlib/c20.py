"""C20: encrypted cookies, symbolic spec (EncryptCookie.tla) made concrete on real ciphertexts."""
import collections

from . import core, generic


def check(run):
    run._binary = run.build_harness()
    n, s = generic.gen_replay(run, "EncryptCookie", "MC_EncryptCookie.cfg", "TestC20", "encryptcookie", workers=4)
    if s["cases"] != n:
        raise core.Inconclusive("driver did not consume every case")
    # the response side of the same step, performed by 8 clients at once on one middleware instance
    import os
    outp = os.path.join(run.work, "conc_out.txt")
    run.drive(run._binary, "TestC20Conc", env={"VERIF_OUT": outp}, timeout=900, tag="conc")
    viol, _x, sc = generic.summary_of(outp)
    if sc is None:
        raise core.Inconclusive("driver TestC20Conc did not finish")
    for v in viol:
        run.violation(v)
    run.extra["concurrent_summary"] = sc
    run.evaluations = s["concrete_exchanges"] + sc["requests"]
    run.traces = n
    run.nontrivial = s["with_tampered_or_foreign_value"]
    run.exhaustive = True
    run.rule = ("TLC enumerates the symbolic scenarios (except lists, key lengths 16/24/32, value classes ascii/binary/empty/long, per cookie name what the "
                "client presents: absent, the issued ciphertext, the other cookie's ciphertext, bit flip, truncation, extension, ciphertext under another key, "
                "plaintext, garbage, empty) with the value each handler must see and checks OnlyAuthentic / NeverPlainOnWire; the harness expands flips to every "
                "byte and truncations to every length of the real AES-GCM ciphertext (strided for long values), verifies the wire value with the standard "
                "library and compares what the next handler sees; the handler of the first request returns normally or with an error after setting the cookies; "
                "the first step is also performed by 8 clients at once on one middleware instance (each must get the ciphertexts of its own values). Non-trivial = concrete exchanges presenting a tampered or foreign value.")
    run.extra["driver_summary"] = s
    run.extra["violations_by_check"] = dict(collections.Counter(v["check"] for v in run.violations))
    run.assumptions = ["the cipher is treated symbolically; only the middleware's handling of issued / non-issued values is modelled",
                       "a ciphertext issued for one name presented under another name yields that plaintext (inside the statement)"]
