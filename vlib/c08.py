"""C08: error-handler selection (spec/ErrorHandler.tla) vs the real framework, repeated runs."""
import collections
import json
import os

from . import core


def check(run):
    binary = run.build_harness()
    r = run.tlc_must_pass("MC_ErrorHandler", "MC_ErrorHandler.cfg", workers=8, heap="6g", timeout=1800, name="ErrorHandler")
    cases = os.path.join(run.work, "c08_cases.ndjson")
    n = core.write_cases(core.parse_cases(r["out"]), cases)
    if n == 0:
        raise core.Inconclusive("no cases")
    res = os.path.join(run.work, "c08_out.txt")
    run.drive(binary, "TestC08", env={"VERIF_CASES": cases, "VERIF_OUT": res}, timeout=3000)
    summary = None
    for line in open(res):
        tag, _, js = line.partition(" ")
        if tag == "V":
            run.violation(json.loads(js))
        elif tag == "S":
            run.sample(json.loads(js))
        elif tag == "SUMMARY":
            summary = json.loads(js)
    if summary is None or summary["cases"] != n:
        raise core.Inconclusive("driver did not finish")
    run.evaluations = summary["runs"]
    run.traces = n
    run.nontrivial = summary["chosen_is_mounted_app"]
    run.exhaustive = True
    run.rule = ("TLC enumerates every forest of <= 3 mounted apps from a pool of prefixes that are string-prefixes of each other / nested / multi-segment, "
                "every assignment of (configured, failing) error handlers incl. the root, every request path (prefix + tail) and error kind, and selects the handler "
                "(innermost configured one containing the path on a segment boundary); each scenario runs repeatedly on apps mounted parent-first and child-first, "
                "error raised by root middleware before the mounts, after them, and by a handler inside the mounted apps. Non-trivial = scenarios whose selected handler belongs to a mounted app.")
    run.extra["driver_summary"] = summary
    run.extra["violations_by_check"] = dict(collections.Counter(v["check"] for v in run.violations))
    run.assumptions = ["prefixes with capitals are requested in the same spelling only (the statement does not say whether prefix containment folds case)",
                       "errors are raised by root-level middleware before / after the mounts or by the first middleware of the mounted apps"]
