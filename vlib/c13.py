"""C13: rate limiter -- model checking of Limiter.tla, schedule exploration validated backward, timed histories replayed forward."""
import collections
import json
import os

from . import core

B = {True: "TRUE", False: "FALSE"}


def subst(tmpl, **kw):
    t = open(os.path.join(core.SPEC, tmpl)).read()
    for k, v in kw.items():
        t = t.replace("@%s@" % k, str(v))
    return t


def summary_of(path):
    viol, samples, summary = [], [], None
    for line in open(path):
        tag, _, js = line.partition(" ")
        if tag == "V":
            viol.append(json.loads(js))
        elif tag == "S":
            samples.append(json.loads(js))
        elif tag == "SUMMARY":
            summary = json.loads(js)
    return viol, samples, summary


def check(run):
    thorough = run.tier == "thorough"
    # ---- 1. design check of the specification itself (exhaustive within the bounds)
    for cfg in (("fixed", "sliding", "skip", "skipsliding") if thorough else ("fixed", "sliding", "skip")):
        run.tlc_must_pass("MC_Limiter", "MC_Limiter_%s.cfg" % cfg, workers=8, heap="6g", timeout=1800, name="MC_Limiter_" + cfg)
    m = run.tlc("MC_Limiter", "MC_Limiter_mutant.cfg", workers=8, heap="6g", timeout=1800, name="MC_Limiter_mutant")
    if "Invariant NoLostUpdate is violated" not in m["out"]:
        raise core.Inconclusive("vacuity guard: the specification without the mutex must violate NoLostUpdate")
    run.extra["vacuity_guard"] = "Limiter.tla with Locking=FALSE violates NoLostUpdate (as it must)"
    # the in-process store behind the middleware: its two-phase garbage collector must be invisible; without the re-check it is not
    run.tlc_must_pass("MemoryStore", "MC_MemoryStore.cfg", workers=4, heap="2g", timeout=600, name="MemoryStore")
    m = run.tlc("MemoryStore", "MC_MemoryStore_mutant.cfg", workers=4, heap="2g", timeout=600, name="MemoryStore_mutant")
    if "GcInvisible is violated" not in m["out"]:
        raise core.Inconclusive("vacuity guard: a sweep that does not re-check must violate GcInvisible")
    binary = run.build_harness()
    # ---- 2. backward: schedules of the real middleware, validated by TLC
    confs = [dict(alg="fixed", skipFailed=False, skipOK=False, exp=3),
             dict(alg="sliding", skipFailed=False, skipOK=False, exp=3),
             dict(alg="fixed", skipFailed=True, skipOK=False, exp=3)]
    if thorough:
        confs += [dict(alg="sliding", skipFailed=True, skipOK=False, exp=3), dict(alg="fixed", skipFailed=False, skipOK=True, exp=3)]
    tot = collections.Counter()
    for i, cf in enumerate(confs):
        tag = "%s_%s%s" % (cf["alg"], "F" if cf["skipFailed"] else "", "S" if cf["skipOK"] else "")
        trace = os.path.join(run.work, "c13_trace_%s.ndjson" % tag)
        outp = os.path.join(run.work, "c13_sched_%s.txt" % tag)
        run.drive(binary, "TestC13Sched", env={"VERIF_TRACE": trace, "VERIF_OUT": outp, "VERIF_CONF": json.dumps(cf),
                                                "VERIF_MAXSCHED": 15000 if thorough else 3000}, timeout=1800)
        viol, _, summary = summary_of(outp)
        if summary is None:
            raise core.Inconclusive("schedule driver did not finish")
        for v in viol:
            run.violation(v)
        cfgtext = subst("Limiter_Trace.cfg.tmpl", ALG=cf["alg"], EXP=cf["exp"], SKIPF=B[cf["skipFailed"]], SKIPS=B[cf["skipOK"]])
        ok, rejected = core.validate_traces(run, "Limiter_Trace", cfgtext, trace, "limiter_" + tag)
        for rj in rejected:
            run.violation({"check": "trace-" + ("invariant" if rj["reason"].startswith("invariant") else "rejected"), "prop": "C13",
                           "conf": cf, "reason": rj["reason"], "at_event": rj["at_event"], "trace": rj["events"]})
        tot["schedules"] += summary["traces"]
        tot["events"] += summary["events"]
        tot["accepted"] += ok
        tot["truncated_scenarios"] += summary["scenarios_truncated"]
        if i == 0:
            for line in open(trace):
                pass
    # ---- 3. forward: timed histories simulated by TLC, replayed sequentially under the virtual clock
    hconfs = [dict(alg="fixed", skipFailed=False, skipOK=False, exp=5), dict(alg="sliding", skipFailed=False, skipOK=False, exp=5)]
    if thorough:
        hconfs += [dict(alg="fixed", skipFailed=True, skipOK=False, exp=5), dict(alg="sliding", skipFailed=False, skipOK=True, exp=5)]
    nh = 2000 if thorough else 250
    for cf in hconfs:
        tag = "%s_%s%s" % (cf["alg"], "F" if cf["skipFailed"] else "", "S" if cf["skipOK"] else "")
        cfgtext = subst("Limiter_Hist.cfg.tmpl", ALG=cf["alg"], SKIPF=B[cf["skipFailed"]], SKIPS=B[cf["skipOK"]], DEPTH=160)
        r = run.tlc_must_pass("MC_Limiter", "hist_run.cfg", workers=1, heap="4g", timeout=1800, simulate="num=%d" % nh, depth=160,
                              defines={"hist_run.cfg": cfgtext}, name="Limiter_hist_" + tag)
        cases = os.path.join(run.work, "c13_hist_%s.ndjson" % tag)
        n = core.write_cases(core.dedupe_histories(core.parse_cases(r["out"], tag="HIST")), cases)
        if n == 0:
            raise core.Inconclusive("no histories generated")
        outp = os.path.join(run.work, "c13_histout_%s.txt" % tag)
        run.drive(binary, "TestC13Hist", env={"VERIF_CASES": cases, "VERIF_OUT": outp, "VERIF_CONF": json.dumps(cf)}, timeout=1800)
        viol, samples, summary = summary_of(outp)
        if summary is None or summary["histories"] != n:
            raise core.Inconclusive("history driver did not finish")
        viol = run.confirm(binary, "TestC13Hist", {"VERIF_CONF": json.dumps(cf)}, viol, "hist_" + tag)
        for v in viol:
            run.violation(v)
        for s in samples[:1]:
            run.sample(s)
        tot["histories"] += n
        tot["history_requests"] += summary["requests"]
        tot["history_429"] += summary["rejected_429"]
        tot["history_fuzzy"] += summary["fuzzy_boundary"]
        tot["history_requests_in_the_collectors_gap"] += summary.get("requests_served_in_the_collectors_gap", 0)
    run.evaluations = tot["schedules"] + tot["histories"]
    run.traces = tot["accepted"] + tot["histories"]
    run.nontrivial = tot["schedules"] + tot["history_429"]
    run.rule = ("(a) exhaustive TLC check of Limiter.tla (2 workers x 2 requests, 2 keys) incl. a mutant without the mutex that must fail; "
                "(b) every interleaving the gate scheduler can produce for 2 concurrent + 1..2 late requests (and one clock tick) on the real "
                "middleware over a gated external storage, each recorded execution validated by TLC against Limiter.tla with NoLostUpdate/MutexHolder/"
                "WindowBudget evaluated at every step; (c) TLC-simulated timed histories replayed sequentially under the virtual clock on memory and "
                "external storage (status and Retry-After compared). Non-trivial = schedules (all have two requests inside the storage window) + rejected history requests.")
    run.extra.update(dict(tot))
    run.extra["violations_by_check"] = dict(collections.Counter(v["check"] for v in run.violations))
    run.samples.append({"schedule_confs": confs, "history_confs": hconfs})
    run.assumptions = ["goroutine wait reasons from runtime.Stack identify mutex-blocked requests (coverage only)",
                       "only Retry-After is compared, not X-RateLimit-*", "sliding window: at exact-integer weights either outcome is accepted"]
