"""C07: wire-level robustness and response well-formedness (spec/Wire.tla); exploration level."""
import collections

from . import core, generic


def check(run):
    run._binary = run.build_harness()
    try:
        n, s = generic.gen_replay(run, "Wire", "MC_Wire.cfg", "TestC07", "wire", workers=4, memlimit_gb=24, timeout=3000,
                                   env={"VERIF_FUZZ": str(3000 if run.tier == "quick" else 60000)})
    except core.Inconclusive as e:
        if "out of memory" in str(e) or "PANIC" in str(e) or "panic:" in str(e):
            run.violation({"check": "wire-server-crashed", "prop": "C07", "first": "-", "helper": "-", "arg": "-", "observed": str(e)[-1500:]})
            run.evaluations = run.traces = 1
            run.rule = "aborted: the server process died, see violation"
            return
        raise
    if s["cases"] != n:
        raise core.Inconclusive("driver did not consume every case")
    run.evaluations = n + s["hostile_header_variants"] + s["mutants"]
    run.traces = n + s["hostile_header_variants"] + s["mutants_answered"]
    run.nontrivial = s["helper_calls_with_hostile_argument"] + s["malformed_or_oversized_requests"] + s["hostile_header_variants"]
    run.exhaustive = True
    run.rule = ("TLC enumerates the connection behaviours of Wire.tla: 14 request classes (unknown / invalid method, malformed target and version, Content-Length abc / negative / "
                "duplicated, bad chunk, oversized header / target / body, hostile Range/Accept*/Cookie/Content-Encoding/X-Forwarded-For/multipart values, absolute URI) with the "
                "prescribed status set and connection fate, and 15 response helpers x 7 argument classes (CR, LF, CRLF + header line, CRLFCRLF + body, NUL, 6 KB, plain) x "
                "{default, custom context}; each runs as raw bytes over an in-memory connection; responses are parsed by a strict parser (CRLF, token names, no control bytes, "
                "Content-Length), allocation per exchange is measured, and a second request probes whether the connection is still served. "
                "On top, seeded byte-level mutants (replace/insert/delete/duplicate/bit-flip/truncate, 1-3 per request) of the class templates plus multipart, Range/If-None-Match/X-Forwarded-* "
                "and Accept*/Cookie templates are sent to a random application variant: any answer must parse strictly, carry a status of the spec's universe, respect the allocation budget, and after a "
                "closing status nothing more may be served. Non-trivial = hostile helper arguments + malformed/oversized requests.")
    run.extra["driver_summary"] = s
    run.extra["violations_by_check"] = dict(collections.Counter(v["check"] for v in run.violations))
    run.assumptions = ["grammar-directed enumeration, not coverage-guided fuzzing: crash-freedom is claimed only for the enumerated classes",
                       "invalid method bytes may be answered 400 or 501", "Port() is not called: it panics by design on a non-TCP peer such as the in-memory connection",
                       "a response carrying Connection: close must not be followed by another response, whatever its status"]
