"""Forward conformance of a pure decision specification: TLC enumerates cases, one Go driver replays them."""
import collections
import json
import os

from . import core
from .c13 import summary_of


def gen_replay(run, module, cfg, test, name, env=None, workers=12, heap="8g", simulate=None, depth=None, tag="CASE", dedupe=False, timeout=3000, memlimit_gb=None, confirm_case=None):
    r = run.tlc_must_pass(module, cfg, workers=workers, heap=heap, timeout=timeout, name=name, simulate=simulate, depth=depth)
    cases = os.path.join(run.work, "%s_cases.ndjson" % name)
    recs = core.parse_cases(r["out"], tag=tag)
    if dedupe:
        recs = core.dedupe_histories(recs, complete=dedupe if callable(dedupe) else (lambda e: True))
    n = core.write_cases(recs, cases)
    if n == 0:
        raise core.Inconclusive("no cases from %s" % name)
    outp = os.path.join(run.work, "%s_out.txt" % name)
    e = {"VERIF_CASES": cases, "VERIF_OUT": outp}
    e.update(env or {})
    run.drive(run._binary, test, env=e, timeout=timeout, tag=name, memlimit_gb=memlimit_gb)
    viol, samples, summary = summary_of(outp)
    if summary is None:
        raise core.Inconclusive("driver %s did not finish" % test)
    if isinstance(summary.get("violations"), int) and summary["violations"] > len(viol):
        # the driver stops writing violation records at VERIF_VCAP: if every written record turns out to be a known finding, what
        # hid behind the cap cannot be told (decided in Run.finish)
        run.truncated = (summary["violations"], len(viol))
    if confirm_case is not None:
        viol = run.confirm(run._binary, test, env or {}, viol, name, case_of=confirm_case)
    for v in viol:
        run.violation(v)
    for s in samples[:2]:
        run.sample(s)
    return n, summary
