"""C10: trusted-proxy decision function (spec/TrustProxy.tla) vs the real context accessors."""
import collections

from . import core, generic


def check(run):
    run._binary = run.build_harness()
    n, s = generic.gen_replay(run, "TrustProxy", "MC_TrustProxy.cfg" if run.tier == "thorough" else "MC_TrustProxy_quick.cfg", "TestC10", "trustproxy")
    if s["cases"] != n:
        raise core.Inconclusive("driver did not consume every case")
    run.evaluations = n
    run.traces = n
    run.nontrivial = s["untrusted_peer_with_forwarding_headers"]
    run.exhaustive = True
    run.rule = ("TLC enumerates proxy configurations (TrustProxy, listed addresses incl. a non-canonical spelling, v4/v6 CIDR ranges, loopback/private/link-local "
                "classes, ProxyHeader, IP validation) x 10 peers (v4/v6 of every class) x {plain, TLS} x forwarding-header assignments (X-Forwarded-For / custom header: "
                "absent, address, list, garbage, garbage-then-address; X-Forwarded-Host; each scheme-carrying header) with the outputs, and checks NonInterference / "
                "SecureIffHttps / ValidatedIPIsAnAddress on the function; each case runs on a real app (fake connections supply peer address and TLS). "
                "Non-trivial = untrusted peers sending forwarding headers.")
    run.extra["driver_summary"] = s
    run.extra["violations_by_check"] = dict(collections.Counter(v["check"] for v in run.violations))
    run.assumptions = ["at most one scheme-carrying header per request", "IPs() is not asserted", "v4 peers are presented in the 4-byte and in the 16-byte (v4-mapped) address form with the same expectation"]
