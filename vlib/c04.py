"""C04: mount == group == flat registration (spec/Mount.tla), differential on the real code."""
import collections
import json
import os

from . import core

DEFAULT = {"cs": False, "strict": False, "unesc": False}


def check(run):
    binary = run.build_harness()
    cfgname = "MC_Mount_quick.cfg" if run.tier == "quick" else "MC_Mount_thorough.cfg"
    r = run.tlc_must_pass("MC_Mount", cfgname, workers=12, heap="8g", timeout=3000, name="Mount")
    cases = os.path.join(run.work, "c04_cases.ndjson")
    n = core.write_cases(core.parse_cases(r["out"]), cases)
    if n == 0:
        raise core.Inconclusive("no cases")
    res = os.path.join(run.work, "c04_out.txt")
    run.drive(binary, "TestC04", env={"VERIF_CASES": cases, "VERIF_OUT": res, "VERIF_CFG": json.dumps(DEFAULT)}, timeout=3000)
    summary = None
    for line in open(res):
        tag, _, js = line.partition(" ")
        if tag == "V":
            run.violation(json.loads(js))
        elif tag == "S":
            run.sample(json.loads(js))
        elif tag == "SUMMARY":
            summary = json.loads(js)
    if summary is None or summary["cases"] != n:
        raise core.Inconclusive("driver did not finish")
    run.evaluations = summary["requests"]
    run.traces = n
    run.nontrivial = summary["requests_hitting_a_handler"]
    run.exhaustive = True
    run.rule = ("TLC enumerates every program (routes inside nested group/mount containers, bounded routes/containers/depth, prefix and path pools "
                "incl. '/', trailing slash, parameterised prefix, empty path) together with its flattening; each program is built on the real code as "
                "written with real mounts (mounted before and after population), with groups instead of mounts, and as the flat table; every request "
                "derived from the flat patterns (fillings + near misses, GET and POST) must be answered identically (handler ids, Params t/id/*, Path, status, Allow). "
                "Non-trivial = requests that reached at least one handler in the flat form.")
    run.extra["driver_summary"] = summary
    run.extra["violations_by_check"] = dict(collections.Counter(v["check"] for v in run.violations))
    run.assumptions = ["all apps of a program share one (default) config", "per-sub-app error handlers belong to C08",
                       "Route().Path and route names are not compared"]
