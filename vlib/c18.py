"""C18: client -- request assembly (ClientAssemble.tla), cookie jar (CookieJar.tla), completion/timeout hand-off (ClientCore.tla)."""
import collections
import json
import os

from . import core
from .c13 import summary_of


def replay(run, binary, test, cases, name, timeout=1800):
    outp = os.path.join(run.work, "c18_%s.txt" % name)
    run.drive(binary, test, env={"VERIF_CASES": cases, "VERIF_OUT": outp}, timeout=timeout, tag=name)
    viol, samples, summary = summary_of(outp)
    if summary is None:
        raise core.Inconclusive("driver %s did not finish" % test)
    if test == "TestC18Jar":
        viol = run.confirm(binary, test, {}, viol, name)
    for v in viol:
        run.violation(v)
    for s in samples[:1]:
        run.sample(s)
    return summary


def check(run):
    thorough = run.tier == "thorough"
    binary = run.build_harness()
    tot = {}
    # ---- 1. request assembly: exhaustive in every pair of components
    r = run.tlc_must_pass("ClientAssemble", "MC_ClientAssemble.cfg", workers=4, heap="4g", timeout=900, name="ClientAssemble")
    cases = os.path.join(run.work, "c18_asm.ndjson")
    n = core.write_cases(core.parse_cases(r["out"]), cases)
    s = replay(run, binary, "TestC18Asm", cases, "asm")
    if s["cases"] + s["skipped_empty_precedence_values"] != n:
        raise core.Inconclusive("assembly driver did not consume every case")
    tot["assembly"] = s
    # ---- 1b. the body: every setter-call sequence (form fields, files, raw, JSON)
    r = run.tlc_must_pass("ClientBody", "MC_ClientBody.cfg", workers=4, heap="4g", timeout=900, name="ClientBody")
    cases = os.path.join(run.work, "c18_body.ndjson")
    recs = list(core.parse_cases(r["out"]))
    if not thorough:
        recs = recs[::4]
    n = core.write_cases(recs, cases)
    s = replay(run, binary, "TestC18Body", cases, "body")
    if s["cases"] != n:
        raise core.Inconclusive("body driver did not consume every case")
    tot["body"] = s
    # ---- 1c. multi-valued holders: every sequence of <= 3 Add / Set / plural / Del calls on headers, query parameters, form fields
    r = run.tlc_must_pass("ClientKV", "MC_ClientKV.cfg", workers=4, heap="4g", timeout=900, name="ClientKV")
    cases = os.path.join(run.work, "c18_kv.ndjson")
    recs = list(core.parse_cases(r["out"]))
    if not thorough:
        recs = recs[::8]
    n = core.write_cases(recs, cases)
    s = replay(run, binary, "TestC18KV", cases, "kv")
    if s["cases"] != n:
        raise core.Inconclusive("kv driver did not consume every case")
    tot["kv"] = s
    # ---- 2. completion / timeout hand-off: design check, the original design must fail, every behaviour replayed
    r = run.tlc_must_pass("ClientCore", "MC_ClientCore.cfg", workers=4, heap="4g", timeout=900, name="ClientCore")
    m = run.tlc("ClientCore", "MC_ClientCore_orig.cfg", workers=4, heap="4g", timeout=900, name="ClientCore_orig")
    if "Invariant WriteOwn is violated" not in m["out"]:
        raise core.Inconclusive("vacuity guard: ClientCore.tla with Compete=FALSE (the original hand-off) must violate WriteOwn")
    run.extra["vacuity_guard"] = "ClientCore.tla with Compete=FALSE violates WriteOwn"
    cases = os.path.join(run.work, "c18_core.ndjson")
    recs = list(core.parse_cases(r["out"]))
    if not thorough:
        recs = recs[::4]  # every 4th complete behaviour in the quick tier
    n = core.write_cases(recs, cases)
    s = replay(run, binary, "TestC18Core", cases, "core")
    if s["cases"] != n:
        raise core.Inconclusive("core driver did not consume every behaviour")
    tot["core"] = s
    # ---- 3. cookie jar: simulated histories; the root-path family is strict, the path family carries a known finding
    nh = 1500 if thorough else 200
    for cfg, name in (("CookieJar_Hist_root.cfg", "jar_root"), ("CookieJar_Hist_v6.cfg", "jar_v6"), ("CookieJar_Hist.cfg", "jar_paths")):
        r = run.tlc_must_pass("CookieJar", cfg, workers=1, heap="4g", timeout=900, simulate="num=%d" % nh, depth=14, name=name)
        cases = os.path.join(run.work, "c18_%s.ndjson" % name)
        n = core.write_cases(core.dedupe_histories(core.parse_cases(r["out"], tag="HIST"), complete=lambda e: True), cases)
        if n == 0:
            raise core.Inconclusive("no jar histories")
        s = replay(run, binary, "TestC18Jar", cases, name)
        if s["histories"] != n:
            raise core.Inconclusive("jar driver did not finish")
        tot[name] = s
    run.evaluations = tot["assembly"]["cases"] + tot["body"]["cases"] + tot["core"]["cases"] + tot["jar_root"]["ops"] + tot["jar_v6"]["ops"] + tot["jar_paths"]["ops"]
    run.traces = tot["assembly"]["cases"] + tot["body"]["cases"] + tot["core"]["cases"] + tot["jar_root"]["histories"] + tot["jar_v6"]["histories"] + tot["jar_paths"]["histories"]
    run.nontrivial = (tot["assembly"]["cases_with_both_levels_additive"] + tot["body"]["with_files"] + tot["core"]["behaviours_with_cancel_after_worker_commit"]
                      + tot["jar_root"]["ops_with_visible_cookies"] + tot["jar_v6"]["ops_with_visible_cookies"] + tot["jar_paths"]["ops_with_visible_cookies"])
    run.rule = ("(a) ClientAssemble.tla: every configuration of each pair of request components (header, query, cookie, user agent, referer, path parameter; the timeout on its own, observed on a slow endpoint together with the next request of a client that configured none) "
                "at client and request level over value classes {plain, needs-escaping, empty} is sent twice over an in-memory connection and compared with what "
                "the spec says arrives; ClientBody.tla: every setter-call sequence of <= 2 form fields (repeated keys, values needing escaping, empty) and <= 2 files "
                "(plain / awkward names; text, binary, boundary-like, empty contents), raw bodies and a JSON value, in every call order, sent twice: form values per key in "
                "order, files with field name, file name and content, raw bytes and content type must arrive as configured; (b) ClientCore.tla: exhaustive model check of the completion/timeout hand-off over pooled objects (the original design "
                "must violate WriteOwn), and every complete behaviour for 2 requests replayed on the real client through the verif gates (server handler, "
                "after the worker's CAS, cancel): who gets which response; (c) CookieJar.tla: simulated histories of Set/Get/full HTTP exchanges with Set-Cookie "
                "updates and deletions/ticks replayed under the virtual clock (host names, host:port, IPv6 literals with and without port). Non-trivial = additive-at-both-levels cases + behaviours where the caller gives up "
                "after the worker committed + jar operations with visible cookies.")
    run.extra.update(tot)
    run.extra["violations_by_check"] = dict(collections.Counter(v["check"] for v in run.violations))
    run.assumptions = ["empty strings for user agent / referer / path parameter / cookie value are outside the comparison",
                       "cookies always carry an explicit Path attribute (the default-path rule is not modelled)",
                       "on the wire same-named cookies collapse: per name presence and membership are compared; jar.Get is compared exactly",
                       "XML / CBOR bodies are covered by C11 only; conflicting setter sequences (a raw body after form fields) are not modelled"]
