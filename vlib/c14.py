"""C14: cache middleware -- model checking of Cache.tla, schedule exploration validated backward, timed histories replayed forward."""
import collections
import concurrent.futures
import json
import os

from . import core
from .c13 import subst, summary_of


def sched_job(run, binary, cf, sc, warm, max_sched, chunk=250):
    """Enumerate the schedules of one scenario in resumable chunks (one process each: every cache instance owns a
    refresher goroutine, so executions are spread over processes).  Returns (trace_path, totals, violations)."""
    tag = "s%d%s" % (sc, "w" if warm else "c")
    trace_all = os.path.join(run.work, "c14_trace_%s.ndjson" % tag)
    tot = collections.Counter()
    viol = []
    resume = None
    with open(trace_all, "w") as out:
        while tot["traces"] < max_sched:
            part = os.path.join(run.work, "c14_part_%s.ndjson" % tag)
            outp = os.path.join(run.work, "c14_sched_%s.txt" % tag)
            env = {"VERIF_TRACE": part, "VERIF_OUT": outp, "VERIF_CONF": json.dumps(cf), "VERIF_MAXSCHED": min(chunk, max_sched - tot["traces"]),
                   "VERIF_SCENARIO": sc, "VERIF_WARM": 1 if warm else 0}
            if resume is not None:
                env["VERIF_RESUME"] = json.dumps(resume)
            run.drive(binary, "TestC14Sched", env=env, timeout=900, tag=tag)
            v, _, summary = summary_of(outp)
            if summary is None:
                raise core.Inconclusive("cache schedule driver did not finish")
            viol += v
            for k in ("traces", "events", "deadlocks", "panics", "transient_blocks_resolved_by_patience"):
                tot[k] += summary[k]
            with open(part) as fh:
                out.write(fh.read())
            resume = summary.get("next")
            if not resume:
                break
        else:
            tot["truncated"] += 1
    return trace_all, tot, viol, tag


def check(run):
    thorough = run.tier == "thorough"
    # ---- 1. design check
    for cfg in (("MC_Cache", "MC_Cache_inval") if thorough else ("MC_Cache_quick", "MC_Cache_inval")):
        run.tlc_must_pass("MC_Cache", cfg + ".cfg", workers=12, heap="12g", timeout=3000, name=cfg)
    m = run.tlc("MC_Cache", "MC_Cache_mutant.cfg", workers=8, heap="6g", timeout=1800, name="MC_Cache_mutant")
    if "Invariant NoCorruption is violated" not in m["out"]:
        raise core.Inconclusive("vacuity guard: Cache.tla with the entry read before the lock must violate NoCorruption")
    run.extra["vacuity_guard"] = "Cache.tla with FetchUnderLock=FALSE (the original order) violates NoCorruption"
    binary = run.build_harness()
    # ---- 2. backward: schedules on the real middleware
    cf = {"maxBytes": 7, "exp": 2}
    jobs = [(sc, warm) for sc in range(7) for warm in (False, True)]
    if not thorough:
        jobs = [(0, False), (0, True), (1, True), (2, False), (3, True), (4, True), (6, True)]
    max_sched = 20000 if thorough else 500
    tot = collections.Counter()
    with concurrent.futures.ThreadPoolExecutor(max_workers=8) as pool:
        futs = [pool.submit(sched_job, run, binary, cf, sc, warm, max_sched) for sc, warm in jobs]
        results = [f.result() for f in futs]
    cfgtext = subst("Cache_Trace.cfg.tmpl", MAXBYTES=cf["maxBytes"], EXP=cf["exp"])
    for trace, t, viol, tag in results:
        for v in viol:
            run.violation(v)
        tot.update(t)
        ok, rejected = core.validate_traces(run, "Cache_Trace", cfgtext, trace, "cache_" + tag)
        tot["accepted"] += ok
        for rj in rejected:
            run.violation({"check": "trace-" + ("invariant" if rj["reason"].startswith("invariant") else "rejected"), "prop": "C14",
                           "conf": cf, "scenario": tag, "reason": rj["reason"], "at_event": rj["at_event"], "trace": rj["events"]})
    # ---- 3. forward: timed histories
    nh = 1500 if thorough else 200
    for mb in (10, 0):
        cfgtext = subst("Cache_Hist.cfg.tmpl", MAXBYTES=mb, DEPTH=140)
        r = run.tlc_must_pass("Cache_Hist", "hist_run.cfg", workers=1, heap="4g", timeout=1800, simulate="num=%d" % nh, depth=140,
                              defines={"hist_run.cfg": cfgtext}, name="Cache_hist_mb%d" % mb)
        cases = os.path.join(run.work, "c14_hist_%d.ndjson" % mb)
        n = core.write_cases(core.dedupe_histories(core.parse_cases(r["out"], tag="HIST")), cases)
        if n == 0:
            raise core.Inconclusive("no histories generated")
        # (storeHeaders, ownClock): the third variant runs the external-storage histories in a process in which nothing starts the clock
        # shared through gofiber/utils -- what the middleware does must not depend on another component having started it
        for sh, own in ((False, False), (True, False), (True, True)):
            outp = os.path.join(run.work, "c14_histout_%d_%d_%d.txt" % (mb, sh, own))
            conf = json.dumps({"maxBytes": mb, "exp": 3, "storeHeaders": sh, "ownClock": own})
            run.drive(binary, "TestC14Hist", env={"VERIF_CASES": cases, "VERIF_OUT": outp, "VERIF_CONF": conf}, timeout=1800)
            viol, samples, summary = summary_of(outp)
            if summary is None or summary["histories"] != n:
                raise core.Inconclusive("history driver did not finish")
            viol = run.confirm(binary, "TestC14Hist", {"VERIF_CONF": conf}, viol, "hist_%d_%d_%d" % (mb, sh, own))
            for v in viol:
                run.violation(v)
            for s in samples[:1]:
                run.sample(s)
            tot["histories"] += n
            tot["history_requests"] += summary["requests"]
            tot["history_hits"] += summary["hits"]
    run.evaluations = tot["traces"] + tot["histories"]
    run.traces = tot["accepted"] + tot["histories"]
    run.nontrivial = tot["traces"] + tot["history_hits"]
    run.rule = ("(a) exhaustive TLC check of Cache.tla (2 workers x 2 requests, 2 keys, MaxBytes between one and two bodies) incl. the mutant with the original "
                "read-before-lock order that must fail; (b) every interleaving the gate scheduler produces for 7 scenarios (cold/warm) of 2-3 concurrent + late "
                "requests on the real middleware over a gated external storage (quick: first 500 schedules per scenario), each execution validated by TLC "
                "against Cache.tla with NoCorruption/Accounting/Bounded/HeldBounded/Tracked/HitCorrect at every step; deadlocks and panics are reported by the "
                "scheduler; (c) TLC-simulated timed histories (no-cache, no-store, invalidation, uncacheable statuses, eviction, expiry) replayed on memory and "
                "external storage, with and without StoreResponseHeaders, and on external storage in a process where nothing starts the shared gofiber/utils clock (status, body, content type, content encoding, X-Cache; with the option also a custom and a "
                "multi-valued origin header on hits). Non-trivial = schedules + history hits.")
    run.extra.update(dict(tot))
    run.extra["violations_by_check"] = dict(collections.Counter(v["check"] for v in run.violations))
    run.samples.append({"schedule_conf": cf, "jobs": jobs})
    run.assumptions = ["time does not pass inside a critical section (ticks only between requests in histories; none during schedule exploration)",
                       "Age / Cache-Control: max-age values are not compared; without StoreResponseHeaders a hit is not required to carry the origin's custom headers",
                       "goroutine wait reasons from runtime.Stack identify mutex-blocked requests (coverage only)"]
