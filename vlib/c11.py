"""C11: client encode -> wire -> Bind round trip (spec/Binding.tla); exploration level."""
import collections

from . import core, generic


def check(run):
    run._binary = run.build_harness()
    jobs = [("MC_Binding.cfg", "values", {}), ("MC_Binding.cfg", "valuesbody", {"VERIF_C11_BODY": "1"}), ("MC_Binding_seq.cfg", "seq", {})]
    if run.tier == "thorough":
        jobs += [("MC_Binding_seq3.cfg", "seq3", {}), ("MC_Binding_seq3.cfg", "seq3body", {"VERIF_C11_BODY": "1"})]
    m = run.tlc("Binding", "MC_Binding_mutant.cfg", workers=4, heap="2g", name="Binding_mutant")
    if "Invariant RoundTrip is violated" not in m["out"]:
        raise core.Inconclusive("vacuity guard: a holder that keeps stale entries for an empty slice must violate RoundTrip")
    run.extra["vacuity_guard"] = "Binding.tla with KeepStale = TRUE violates RoundTrip"
    tot = collections.Counter()
    ncases = 0
    for cfg, name, env in jobs:
        n, s = generic.gen_replay(run, "Binding", cfg, "TestC11", name, env=env, workers=8, timeout=2400)
        if s["cases"] != n:
            raise core.Inconclusive("driver did not consume every case of %s" % name)
        ncases += n
        for k, v in s.items():
            if isinstance(v, int):
                tot[k] += v
    run.evaluations = tot["sends"] + tot["unbindable_requests"]
    run.traces = ncases
    run.nontrivial = tot["sends_compared"] + tot["unbindable_requests"]
    run.exhaustive = True
    run.rule = ("TLC checks RoundTrip (Dec(Enc(v)) = v whenever splitting cannot interfere) and StatusByMode on Binding.tla and enumerates every behaviour: "
                "8 sources x {splitting on, off} x SetStruct of the base value with one field replaced from pools of strings (atoms: reserved URL characters, unicode, "
                "commas, brackets, quotes, spaces, 300 bytes), extreme integers, floats, booleans, empty / long / comma-carrying slices, optionally overriding an "
                "earlier SetStruct on the same request; un-bindable inputs (not a number, overflow, unmatched bracket, garbage / wrong type / truncated bodies) x "
                "{manual, automatic handling}; sequences of 2 (thorough 3) requests over one client and app. Each behaviour runs through the real client, an "
                "in-memory connection and a real handler binding from the same source (directly and via Bind().Body); the bound struct must equal the prescribed one. "
                "Non-trivial = compared sends + un-bindable requests.")
    run.extra["driver_totals"] = dict(tot)
    run.extra["violations_by_check"] = dict(collections.Counter((v["check"], v["source"]) .__str__() for v in run.violations))
    run.assumptions = ["values a source cannot carry (cookie: non cookie-octets per RFC 6265; header: surrounding whitespace, line breaks) are sent but not compared",
                       "value pools are finite; one field varies at a time", "headers have no struct setter: the harness adds one header per entry"]
