"""C06: Immutable option (spec/Immutable.tla): captured values vs buffer reuse."""
import collections

from . import core, generic


def check(run):
    run._binary = run.build_harness()
    m = run.tlc("Immutable", "MC_Immutable_mutant.cfg", workers=4, heap="4g", name="Immutable_mutant")
    if "Invariant StaysValid is violated" not in m["out"]:
        raise core.Inconclusive("vacuity guard: an accessor that aliases a buffer under Immutable must violate StaysValid")
    m2 = run.tlc("Immutable", "MC_Immutable_scratch.cfg", workers=4, heap="4g", name="Immutable_scratch")
    if "Invariant StableInHandler is violated" not in m2["out"]:
        raise core.Inconclusive("vacuity guard: an accessor that hands out pooled scratch memory must violate StableInHandler")
    run.extra["vacuity_guard"] = "Immutable.tla with Aliasing = {params} violates StaysValid"
    n, s = generic.gen_replay(run, "Immutable", "MC_Immutable_thorough.cfg" if run.tier == "thorough" else "MC_Immutable.cfg", "TestC06", "immutable", workers=4)
    if s["cases"] != n:
        raise core.Inconclusive("driver did not consume every case")
    run.evaluations = n
    run.traces = n
    run.nontrivial = s["reuse_requests"]
    run.exhaustive = True
    run.rule = ("TLC checks the aliasing model (a copying accessor pins the buffer version, an aliasing one does not; any aliasing accessor under Immutable must fail) and "
                "enumerates option on/off x request shape (GET with query, form POST, JSON POST) x every history of <= 2 (thorough: 3) later requests of 5 kinds (same "
                "length, shorter, longer, other route, malformed); a handler takes the values of 25 accessors (params, path, URL, protocol, query, form, headers, cookies, "
                "host, body, IP, base URL, subdomains, generic Query, Bind().Query/Form/Header/Cookie/URI/JSON string fields) without copying, the later requests are served "
                "from wire bytes on the same RequestCtx, and every captured value is compared with its copy taken at capture time; inside the handler each value must be "
                "what was sent (both modes). Non-trivial = later requests served on the recycled buffers.")
    run.extra["driver_summary"] = s
    run.extra["violations_by_check"] = dict(collections.Counter(v["check"] for v in run.violations))
    run.assumptions = ["without Immutable nothing is asserted after the handler returned (inside the handler, after it went on using Links / String / Attachment / GetRouteURL, every value must read as taken, in both modes)"]
