"""C16: CSRF (spec/Csrf.tla): simulated request histories replayed under the virtual clock."""
import collections
import json
import os

from . import core
from .c13 import subst, summary_of

B = {True: "TRUE", False: "FALSE"}


def check(run):
    binary = run.build_harness()
    thorough = run.tier == "thorough"
    nh = 3000 if thorough else 400
    confs = [dict(extractor="header", single=False, backend="external"),
             dict(extractor="query", single=True, backend="memory"),
             dict(extractor="cookie", single=False, backend="memory"),
             dict(extractor="header", single=False, backend="session")]
    if thorough:
        confs += [dict(extractor="form", single=False, backend="external"), dict(extractor="header", single=True, backend="external"),
                  dict(extractor="query", single=True, backend="session")]
    tot = collections.Counter()
    for i, cf in enumerate(confs):
        name = "csrf_%s_%s_%s" % (cf["extractor"], "single" if cf["single"] else "multi", cf["backend"])
        cfgtext = subst("Csrf_Hist.cfg.tmpl", SINGLE=B[cf["single"]], COOKIEX=B[cf["extractor"] == "cookie"], SESSION=B[cf["backend"] == "session"])
        r = run.tlc_must_pass("Csrf", "hist_run.cfg", workers=1, heap="4g", timeout=900, simulate="num=%d" % nh, depth=22,
                              defines={"hist_run.cfg": cfgtext}, name=name)
        cases = os.path.join(run.work, name + ".ndjson")
        n = core.write_cases(core.dedupe_histories(core.parse_cases(r["out"], tag="HIST"), complete=lambda e: True, drop_last=True), cases)
        if n == 0:
            raise core.Inconclusive("no histories")
        outp = os.path.join(run.work, name + "_out.txt")
        run.drive(binary, "TestC16", env={"VERIF_CASES": cases, "VERIF_OUT": outp, "VERIF_CONF": json.dumps(cf)}, timeout=900, tag=name)
        viol, samples, s = summary_of(outp)
        if s is None or s["histories"] != n:
            raise core.Inconclusive("driver did not finish")
        viol = run.confirm(binary, "TestC16", {"VERIF_CONF": json.dumps(cf)}, viol, name)
        for v in viol:
            run.violation(v)
        for x in samples[:1]:
            run.sample(x)
        for k, v in s.items():
            if isinstance(v, int):
                tot[k] += v
    run.evaluations = tot["unsafe_requests"]
    run.traces = tot["histories"]
    run.nontrivial = tot["passing"] + tot["swapped_or_forged"]
    run.rule = ("TLC simulates request histories of Csrf.tla (safe requests issuing/extending tokens, unsafe requests with any cookie/presented token combination "
                "incl. swapped, stale, deleted, consumed and forged ones, 10 origin classes x http/https x 6 referer classes, DeleteToken, storage faults, ticks) "
                "with pass/reject and the token each response leaves; replayed under the virtual clock for header/query/form/cookie extractors, single-use on/off, "
                "memory/external/session back ends with a counting KeyGenerator. Non-trivial = passing unsafe requests + swapped/forged presentations.")
    run.extra.update(dict(tot))
    run.extra["confs"] = confs
    run.extra["violations_by_check"] = dict(collections.Counter(v["check"] for v in run.violations))
    run.assumptions = ["even ticks vs odd idle timeout: no request lands on an expiry instant", "session back end: one client session holding one token",
                       "storage faults only with the external storage"]
