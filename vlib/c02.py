"""C02 / C03: route-pattern reference semantics (spec/PathMatch.tla) vs the real matcher."""
import collections
import json
import os

from . import core

QUICK = {"MaxSeg": "3", "Pool": '"mid"', "ShortLen": "3"}
THOROUGH = {"MaxSeg": "3", "Pool": '"full"', "ShortLen": "3"}


def gen_and_replay(run):
    consts = QUICK if run.tier == "quick" else THOROUGH
    cfg = "SPECIFICATION Spec\nCONSTANTS\n" + "".join("  %s = %s\n" % kv for kv in consts.items()) + "INVARIANT Emit\n"
    r = run.tlc_must_pass("PathMatch_Gen", "PathMatch_Gen_run.cfg", workers=12, heap="8g", timeout=3000,
                          defines={"PathMatch_Gen_run.cfg": cfg}, name="PathMatch_Gen")
    cases = os.path.join(run.work, "pm_cases.ndjson")
    n = core.write_cases(core.parse_cases(r["out"]), cases)
    if n == 0:
        raise core.Inconclusive("TLC produced no cases")
    binary = run.build_harness()
    outp = os.path.join(run.work, "pm_out.txt")
    run.drive(binary, "TestC02", env={"VERIF_CASES": cases, "VERIF_OUT": outp})
    viol, samples, summary = [], [], None
    with open(outp) as fh:
        for line in fh:
            tag, _, js = line.partition(" ")
            if tag == "V":
                viol.append(json.loads(js))
            elif tag == "S":
                samples.append(json.loads(js))
            elif tag == "SUMMARY":
                summary = json.loads(js)
    if summary is None or summary["cases"] != n:
        raise core.Inconclusive("driver did not finish: %r" % (summary,))
    return n, viol, samples, summary


def check(run, prop):
    n, viol, samples, summary = gen_and_replay(run)
    mine = [v for v in viol if v["prop"] == prop]
    for v in mine:
        run.violation(v)
    run.evaluations = n
    run.traces = n
    run.samples = samples[:4]
    run.exhaustive = True
    if prop == "C02":
        run.nontrivial = summary["distinct_ran"]
        run.rule = ("TLC enumerates every well-formed pattern of <= MaxSeg segments over the segment pool x "
                    "(every filling from the value pool, the pattern's own text, slash/case variants, every short path) x "
                    "the relevant routing configs and evaluates the declarative relations AllMay/AllUse; each case is dispatched "
                    "to a real app holding only that route (GET and Use). Non-trivial = distinct (pattern, path) where the handler really ran.")
    else:
        run.nontrivial = summary["c03_asserted"]
        run.rule = ("same enumeration; non-trivial = cases that are legal fillings of a delimited pattern with no extra "
                    "occurrence of a following literal (C03's precondition, evaluated by TLC) where match and values were asserted; "
                    "RoutePatternMatch compared with dispatch on every case (rpm_compared).")
    run.extra["driver_summary"] = summary
    run.extra["violations_by_check"] = dict(collections.Counter(v["check"] for v in mine))
    run.assumptions = ["paths beginning with '//' are not generated (fasthttp parses them as host+path)",
                       "constraint predicates in PathMatch.tla are transcriptions of the documented meaning over a small alphabet",
                       "custom constraint 'even' is registered by the harness"]
