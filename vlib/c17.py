"""C17: idempotency middleware -- model checking (Idempotency.tla, MemoryLock.tla) and schedule exploration validated backward."""
import collections
import concurrent.futures
import json
import os

from . import core
from .c13 import summary_of


def sched_job(run, binary, sc, max_dfs, n_random, chunk=4000):
    tag = "s%d" % sc
    trace_all = os.path.join(run.work, "c17_trace_%s.ndjson" % tag)
    tot = collections.Counter()
    viol = []
    resume = None
    with open(trace_all, "w") as out:
        while tot["dfs"] < max_dfs:
            part = os.path.join(run.work, "c17_part_%s.ndjson" % tag)
            outp = os.path.join(run.work, "c17_sched_%s.txt" % tag)
            n = min(chunk, max_dfs - tot["dfs"])
            last = tot["dfs"] + n >= max_dfs
            env = {"VERIF_TRACE": part, "VERIF_OUT": outp, "VERIF_MAXSCHED": n, "VERIF_SCENARIO": sc,
                   "VERIF_RANDOM_SCHED": n_random if last else 0}
            if resume is not None:
                env["VERIF_RESUME"] = json.dumps(resume)
            run.drive(binary, "TestC17Sched", env=env, timeout=900, tag=tag)
            v, _, summary = summary_of(outp)
            if summary is None:
                raise core.Inconclusive("idempotency schedule driver did not finish")
            viol += v
            tot["dfs"] += n
            for k in ("traces", "events", "deadlocks", "keys_answered_more_than_once", "transient_blocks_resolved_by_patience"):
                tot[k] += summary[k]
            with open(part) as fh:
                out.write(fh.read())
            resume = summary.get("next")
            if not resume:
                tot["exhausted"] += 1
                break
    return trace_all, tot, viol, tag


def check(run):
    thorough = run.tier == "thorough"
    run.tlc_must_pass("Idempotency", "MC_Idempotency.cfg", workers=8, heap="6g", timeout=1800, name="MC_Idempotency")
    run.tlc_must_pass("MemoryLock", "MC_MemoryLock.cfg", workers=8, heap="4g", timeout=1800, name="MC_MemoryLock")
    m = run.tlc("Idempotency", "MC_Idempotency_mutant.cfg", workers=8, heap="4g", timeout=1800, name="MC_Idempotency_mutant")
    if "Invariant AtMostOnce is violated" not in m["out"]:
        raise core.Inconclusive("vacuity guard: Idempotency.tla with a Locker that excludes nobody must violate AtMostOnce")
    run.extra["vacuity_guard"] = "Idempotency.tla with Locking=FALSE violates AtMostOnce"
    binary = run.build_harness()
    max_dfs, n_random = (40000, 20000) if thorough else (600, 600)
    tot = collections.Counter()
    with concurrent.futures.ThreadPoolExecutor(max_workers=9) as pool:
        results = [f.result() for f in [pool.submit(sched_job, run, binary, sc, max_dfs, n_random) for sc in range(9)]]
    cfgtext = open(os.path.join(core.SPEC, "Idempotency_Trace.cfg")).read()
    for trace, t, viol, tag in results:
        for v in viol:
            run.violation(v)
        tot.update(t)
        ok, rejected = core.validate_traces(run, "Idempotency_Trace", cfgtext, trace, "idem_" + tag)
        tot["accepted"] += ok
        for rj in rejected:
            run.violation({"check": "trace-" + ("invariant" if rj["reason"].startswith("invariant") else "rejected"), "prop": "C17",
                           "scenario": tag, "reason": rj["reason"], "at_event": rj["at_event"], "trace": rj["events"]})
        if len(run.samples) < 2:
            with open(trace) as fh:
                lines = [json.loads(x) for x in fh.readlines()[:40]]
            cut = [i for i, e in enumerate(lines) if e["ev"] == "reset"]
            run.samples.append({"scenario": tag, "one_recorded_execution": lines[cut[1]:cut[2]] if len(cut) > 2 else lines})
    run.evaluations = tot["traces"]
    run.traces = tot["accepted"]
    run.nontrivial = tot["keys_answered_more_than_once"]
    run.exhaustive = tot["exhausted"] == 9
    run.rule = ("(a) exhaustive TLC check of Idempotency.tla (3 requests, 2 keys, every fault position) and of MemoryLock.tla at the grain of its two mutexes "
                "(3 processes x 2 rounds), plus a mutant Locker that must violate AtMostOnce; (b) 7 scenarios of 3-4 duplicate / distinct-key requests "
                "(handler errors, lookup and lock faults, late duplicates) explored with the gate scheduler on the real middleware + real MemoryLock "
                "(DFS prefix + seeded random schedules where the space is too large), every execution validated by TLC against Idempotency.tla with "
                "AtMostOnce / SameAnswer / FaultMeansNoRun / MutexPerKey / BypassUnaffected at every step; responses of answered duplicates are compared byte for byte "
                "(status, body incl. empty, multi-valued kept headers, cookies). Non-trivial = executions in which a key was answered more than once.")
    run.extra.update(dict(tot))
    run.extra["violations_by_check"] = dict(collections.Counter(v["check"] for v in run.violations))
    run.assumptions = ["storage Set faults are outside the statement and not injected", "lifetime expiry is not exercised in the schedules (Lifetime = 1h)",
                       "goroutine wait reasons from runtime.Stack identify requests blocked inside MemoryLock (coverage only)"]
