"""C19: CORS decision function (spec/Cors.tla) vs the real middleware."""
import collections

from . import generic


def check(run):
    run._binary = run.build_harness()
    n, s = generic.gen_replay(run, "Cors", "MC_Cors.cfg" if run.tier == "thorough" else "MC_Cors_quick.cfg", "TestC19", "cors")
    if s["cases"] != n:
        from . import core
        raise core.Inconclusive("driver did not consume every case")
    run.evaluations = n
    run.traces = n
    run.nontrivial = s["origin_allowed"]
    run.exhaustive = True
    run.rule = ("TLC enumerates every configuration (subsets of exact entries, wildcard-subdomain entries with and without port, allow function, allow-all, "
                "credentials, private network, max age, configured headers, expose) x every request (GET/OPTIONS, 24 origins incl. sub-domains, deeper "
                "sub-domains, look-alike and suffix-sharing hosts, other scheme/port, null, absent, upper-case spelling, preflight headers) and evaluates "
                "the decision function; each pair runs through the real middleware (invalid configurations must panic at construction). "
                "Non-trivial = cases in which the origin is allowed.")
    run.extra["driver_summary"] = s
    run.extra["violations_by_check"] = dict(collections.Counter(v["check"] for v in run.violations))
    run.assumptions = ["for allow-all configurations Vary: Origin is not required on simple requests (nothing depends on the origin)"]
