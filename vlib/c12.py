"""C12: flash messages over a real HTTP exchange (spec/Flash.tla)."""
import collections

from . import core, generic


def check(run):
    run._binary = run.build_harness()
    try:
        n, s = generic.gen_replay(run, "Flash", "MC_Flash_thorough.cfg" if run.tier == "thorough" else "MC_Flash.cfg", "TestC12", "flash", workers=4, memlimit_gb=24,
                                    env={"VERIF_VCAP": "20000000"})  # nearly every case hits one of the two raw-MessagePack findings: all records are needed
    except core.Inconclusive as e:
        if "out of memory" in str(e):
            # the code under test exhausted the address space while decoding a hostile cookie: that is the observation
            run.violation({"check": "flash-decode-cost-not-proportional", "prop": "C12", "client": "-", "hostile": "announce32",
                           "observed": "the server process ran out of memory (ulimit -v 24 GiB) while decoding a hostile fiber_flash cookie"})
            run.evaluations = run.traces = 1
            run.rule = "aborted: see violation"
            return
        raise
    if s["cases"] != n:
        raise core.Inconclusive("driver did not consume every case")
    run.evaluations = n
    run.traces = n
    run.nontrivial = s["delivered_intact"] + s["hostile_kinds"]
    run.exhaustive = True
    run.rule = ("TLC enumerates the behaviours of Flash.tla: every message set of <= 2 flash messages / old inputs over key/value classes (plain, separators and quotes, "
                "unicode, percent escapes, empty, long) and levels {0,65,200}, issued by To / Route / Route with queries / Back, received by a handler that succeeds or fails after reading them (with an error handler that fails as well), for a conforming client (net/http + cookiejar over an in-memory listener) and a byte-transparent one, "
                "plus hostile cookie kinds (truncation at every byte, announced lengths 2^32-1 / 2^16-1, wrong types, non-MessagePack, empty) and no cookie, with "
                "what each follow-up request must see (DeliveredOnce is checked on the spec). Hostile decodes are timed and their allocation measured. "
                "Non-trivial = message sets delivered intact + hostile kinds.")
    run.extra["driver_summary"] = s
    run.extra["violations_by_check"] = dict(collections.Counter(v["check"] for v in run.violations))
    run.assumptions = ["cookies with trailing bytes after a complete encoding and maps with missing fields are not asserted (the statement leaves them open)"]
