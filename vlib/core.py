"""Shared machinery for /verif/bin/check: TLC runs, harness build, evidence, known findings.

Python stdlib only.  Exit-code contract (DESIGN.md 2.2):
  0 property held on everything explored (KNOWN-FINDING lines allowed)
  1 at least one violation not covered by known_findings.json
  2 the check could not reach a verdict (build failure, TLC error/timeout, dead driver)
"""
import hashlib
import json
import os
import re
import shutil
import subprocess
import sys
import time

VERIF = os.path.dirname(os.path.dirname(os.path.abspath(__file__)))
REPO = os.environ.get("VERIF_REPO", "/repo")
SPEC = os.path.join(VERIF, "spec")
HARNESS = os.path.join(VERIF, "harness")
TLA_CP = "/opt/veriftools/tla/tla2tools.jar:/opt/veriftools/tla/CommunityModules-deps.jar"
GO = "go1.26"
GOENV = {
    "GOFLAGS": "-mod=mod",
    "GOPROXY": "off",
    "GOSUMDB": "off",
    "GOTOOLCHAIN": "local",
}


class Inconclusive(Exception):
    """The machinery could not reach a verdict (exit 2)."""


def log(*a):
    print(*a, file=sys.stderr, flush=True)


class Run:
    """One invocation of a check: scratch dir, counters, violations, evidence."""

    def __init__(self, pid, tier, seed, level="model_checking"):
        self.pid = pid
        self.tier = tier
        self.seed = seed
        self.level = level
        self.t0 = time.time()
        self.work = os.path.join(VERIF, ".work", "%s.%d" % (pid, os.getpid()))
        shutil.rmtree(self.work, ignore_errors=True)
        os.makedirs(self.work)
        self.states = 0
        self.transitions = 0
        self.traces = 0
        self.evaluations = 0
        self.nontrivial = 0
        self.samples = []
        self.violations = []  # list of dict records
        self.tlc_runs = []
        self.extra = {}
        self.assumptions = []
        self.rule = ""
        self.exhaustive = None
        self.known_printed = []
        self.truncated = None    # (reported, written): a driver reported more violations than it wrote records (VERIF_VCAP)
        self.unreproduced = []   # violations of replayed histories that did not show again on a second, isolated replay

    # ---------------------------------------------------------------- TLC
    def tlc(self, module, cfg, workers=8, heap="6g", timeout=1800, simulate=None, depth=None,
            extra_args=(), deque=False, files=(), defines=None, name=None, coverage=False,
            deadlock=False):
        """Run TLC on spec/<module>.tla with spec/<cfg> inside a scratch copy.

        Returns dict(out=stdout text, states=distinct, generated=generated, ok=bool, rc=int).
        `files`: extra (src, dstname) files copied next to the spec (traces, data modules).
        """
        name = name or cfg.replace(".cfg", "")
        d = os.path.join(self.work, "tlc_" + name)
        shutil.rmtree(d, ignore_errors=True)
        os.makedirs(d)
        for f in os.listdir(SPEC):
            if f.endswith(".tla") or f.endswith(".cfg"):
                shutil.copy(os.path.join(SPEC, f), d)
        for src, dst in files:
            shutil.copy(src, os.path.join(d, dst))
        if defines:
            for fn, text in defines.items():
                with open(os.path.join(d, fn), "w") as fh:
                    fh.write(text)
        os.makedirs(os.path.join(d, "jtmp"))
        jopts = ["-Xmx" + heap, "-Xss64m", "-XX:+UseParallelGC", "-Djava.io.tmpdir=" + os.path.join(d, "jtmp")]
        if deque:
            jopts.append("-Dtlc2.tool.queue.IStateQueue=StateDeque")
        cmd = ["java"] + jopts + ["-cp", TLA_CP, "tlc2.TLC", "-workers", str(workers),
                                   "-metadir", os.path.join(d, "meta"), "-config", cfg]
        if not deadlock:
            cmd.append("-deadlock")  # -deadlock DISABLES deadlock checking
        if coverage:
            cmd += ["-coverage", "1"]
        if simulate:
            cmd += ["-simulate", simulate]
            if depth:
                cmd += ["-depth", str(depth)]
            cmd += ["-seed", str(self.seed)]
        cmd += list(extra_args)
        cmd.append(module + ".tla")
        t = time.time()
        outp = os.path.join(d, "tlc.out")
        env = dict(os.environ)
        env.pop("JAVA_TOOL_OPTIONS", None)
        with open(outp, "w") as fh:
            try:
                p = subprocess.run(cmd, cwd=d, stdout=fh, stderr=subprocess.STDOUT, timeout=timeout, env=env)
                rc = p.returncode
            except subprocess.TimeoutExpired:
                rc = -9
        with open(outp, errors="replace") as fh:
            out = fh.read()
        res = {"out": out, "rc": rc, "dir": d, "wall": time.time() - t, "name": name,
               "distinct": 0, "generated": 0}
        m = re.findall(r"(\d+) states generated, (\d+) distinct states found", out)
        if m:
            res["generated"], res["distinct"] = int(m[-1][0]), int(m[-1][1])
        else:
            m = re.findall(r"(\d+) states checked", out)  # simulation mode
            if m:
                res["generated"] = res["distinct"] = int(m[-1])
        self.states += res["distinct"]
        self.transitions += res["generated"]
        self.tlc_runs.append({"name": name, "module": module, "cfg": cfg, "rc": rc,
                              "distinct": res["distinct"], "generated": res["generated"],
                              "wall_s": round(res["wall"], 2), "mode": "simulate" if simulate else "bfs"})
        log("[tlc] %s rc=%d distinct=%d generated=%d %.1fs" % (name, rc, res["distinct"], res["generated"], res["wall"]))
        return res

    def tlc_must_pass(self, *a, **kw):
        r = self.tlc(*a, **kw)
        if r["rc"] != 0:
            tail = "\n".join(r["out"].splitlines()[-40:])
            raise Inconclusive("TLC run %s failed rc=%d\n%s" % (r["name"], r["rc"], tail))
        return r

    # ---------------------------------------------------------------- Go harness
    def build_harness(self, tags="verif", race=False):
        out = os.path.join(self.work, "harness.test")
        env = dict(os.environ)
        env.update(GOENV)
        shutil.copy(os.path.join(REPO, "go.sum"), os.path.join(HARNESS, "go.sum"))
        cmd = [GO, "test", "-c", "-vet=off", "-tags", tags, "-o", out]
        if race:
            cmd.append("-race")
        cmd.append(".")
        t = time.time()
        p = subprocess.run(cmd, cwd=HARNESS, env=env, stdout=subprocess.PIPE, stderr=subprocess.STDOUT, text=True)
        log("[go] build harness rc=%d %.1fs" % (p.returncode, time.time() - t))
        if p.returncode != 0:
            raise Inconclusive("harness build failed:\n" + p.stdout[-4000:])
        return out

    def drive(self, binary, test, env=None, timeout=1800, memlimit_gb=None, ok_rcs=(0,), tag=""):
        """Run one driver (a Test function of the harness binary).  Returns stdout text."""
        e = dict(os.environ)
        e.update(GOENV)
        e["VERIF_SEED"] = str(self.seed)
        e["VERIF_TIER"] = self.tier
        e["VERIF_WORK"] = self.work
        if env:
            e.update({k: str(v) for k, v in env.items()})
        cmd = [binary, "-test.run", "^%s$" % test, "-test.timeout", "%ds" % (timeout + 60), "-test.count", "1"]
        if memlimit_gb:
            cmd = ["bash", "-c", "ulimit -v %d; exec \"$@\"" % (memlimit_gb * 1024 * 1024), "x"] + cmd
        t = time.time()
        outp = os.path.join(self.work, "drive_%s%s.out" % (test, tag))
        with open(outp, "w") as fh:
            try:
                p = subprocess.run(cmd, cwd=self.work, env=e, stdout=fh, stderr=subprocess.STDOUT, timeout=timeout)
                rc = p.returncode
            except subprocess.TimeoutExpired:
                rc = -9
        with open(outp, errors="replace") as fh:
            out = fh.read()
        log("[go] drive %s rc=%d %.1fs" % (test, rc, time.time() - t))
        if rc not in ok_rcs:
            raise Inconclusive("driver %s died rc=%d\n%s" % (test, rc, out[-4000:]))
        return out

    def confirm(self, binary, test, env, viols, tag, case_of=None):
        """Second look at violations found by replaying generated histories: the histories concerned are replayed alone, in a
        fresh process.  Returns the violations that show again; the others go to self.unreproduced (they make the run
        inconclusive, never red: a verdict comes only from behaviour of the real code that can be shown again)."""
        case_of = case_of or (lambda v: {"hist": v["history"]})
        hv = [v for v in viols if isinstance(v.get("history"), list)]
        if not hv:
            return viols
        key = lambda v: json.dumps(case_of(v), sort_keys=True)
        lines = sorted({key(v) for v in hv})
        cases = os.path.join(self.work, "confirm_%s.ndjson" % tag)
        with open(cases, "w") as fh:
            fh.write("\n".join(lines) + "\n")
        outp = os.path.join(self.work, "confirm_%s_out.txt" % tag)
        e = dict(env or {})
        e.update({"VERIF_CASES": cases, "VERIF_OUT": outp})
        self.drive(binary, test, env=e, timeout=1800, tag="_confirm_" + tag)
        again = set()
        for line in open(outp):
            t, _, js = line.partition(" ")
            if t == "V":
                v2 = json.loads(js)
                if isinstance(v2.get("history"), list):
                    again.add(key(v2))
        keep = [v for v in viols if not isinstance(v.get("history"), list) or key(v) in again]
        lost = [v for v in hv if key(v) not in again]
        if lost:
            log("[confirm] %s: %d of %d history violations did not show again in isolation" % (tag, len(lost), len(hv)))
        self.unreproduced += lost
        return keep

    # ---------------------------------------------------------------- results
    def sample(self, rec, limit=5):
        if len(self.samples) < limit:
            self.samples.append(rec)

    def violation(self, rec):
        self.violations.append(rec)

    def finish(self):
        """Match violations against known findings, write evidence, print lines, return exit code."""
        kf = load_known(self.pid)
        fresh = []
        known_hits = {}
        for v in self.violations:
            hit = None
            for k in kf:
                if k.get("fixed"):
                    continue
                if selector_matches(k.get("selector", {}), v):
                    hit = k
                    break
            if hit is None:
                fresh.append(v)
            else:
                known_hits.setdefault(hit["id"], [hit, 0])[1] += 1
        for kid, (k, n) in sorted(known_hits.items()):
            print("KNOWN-FINDING: property=%s %s [%s; %d case(s) this run]" % (self.pid, k["what"], kid, n))
        rc = 0
        if not fresh and self.truncated:
            # every record that was written is a known finding, but there were more violations than records: what hid behind the cap?
            raise Inconclusive("a driver reported %d violations but wrote %d records (cap); all written ones are known findings: "
                               "raise VERIF_VCAP for this check" % self.truncated)
        if not fresh and self.unreproduced:
            os.makedirs(os.path.join(VERIF, "replays", self.pid), exist_ok=True)
            path = os.path.join(VERIF, "replays", self.pid, "unreproduced.json")
            with open(path, "w") as fh:
                json.dump(self.unreproduced[:5], fh, indent=1)
            raise Inconclusive("%d violation(s) seen while replaying generated histories did not show again when the same histories were "
                               "replayed alone in a fresh process (first ones written to %s): no verdict" % (len(self.unreproduced), path))
        if fresh:
            rc = 1
            os.makedirs(os.path.join(VERIF, "replays", self.pid), exist_ok=True)
            seen = set()
            for v in fresh[:20]:
                blob = json.dumps(v, sort_keys=True)
                h = hashlib.sha1(blob.encode()).hexdigest()[:12]
                if h in seen:
                    continue
                seen.add(h)
                path = os.path.join(VERIF, "replays", self.pid, h + ".json")
                with open(path, "w") as fh:
                    fh.write(blob)
                print("VIOLATION property=%s replay=%s" % (self.pid, path))
                log("  " + blob[:600])
            if len(fresh) > 20:
                log("  ... %d further violations not written" % (len(fresh) - 20))
        cov = {
            "evaluations": self.evaluations,
            "distinct_nontrivial": self.nontrivial,
            "rule": self.rule,
            "samples": self.samples or [{"note": "no sample recorded"}],
            "states": self.states,
            "transitions": self.transitions,
            "traces_validated_against_impl": self.traces,
            "tlc_runs": self.tlc_runs,
            "known_findings_hit": {k: n for k, (_, n) in known_hits.items()},
            "fresh_violations": len(fresh),
        }
        if self.exhaustive is not None:
            cov["exhaustive"] = bool(self.exhaustive)
        cov.update(self.extra)
        ev = {
            "property_id": self.pid,
            "tier": self.tier,
            "seed": self.seed,
            "level": self.level,
            "coverage": cov,
            "assumptions": self.assumptions,
            "wall_s": round(time.time() - self.t0, 2),
            "violations": len(fresh),
        }
        os.makedirs(os.path.join(VERIF, "evidence"), exist_ok=True)
        tmp = os.path.join(VERIF, "evidence", self.pid + ".json.tmp")
        with open(tmp, "w") as fh:
            json.dump(ev, fh, indent=1, sort_keys=True)
            fh.write("\n")
        os.replace(tmp, os.path.join(VERIF, "evidence", self.pid + ".json"))
        log("[%s] tier=%s seed=%d evaluations=%d nontrivial=%d states=%d traces=%d violations=%d known=%d wall=%.1fs" % (
            self.pid, self.tier, self.seed, self.evaluations, self.nontrivial, self.states, self.traces,
            len(fresh), sum(n for _, n in known_hits.values()), time.time() - self.t0))
        return rc

    def cleanup(self):
        if not os.environ.get("VERIF_KEEP"):
            shutil.rmtree(self.work, ignore_errors=True)


# -------------------------------------------------------------------- TLC output parsing
_CASE = re.compile(r'^<<"(CASE|HIST)", "(.*)">>\s*$')


def parse_cases(out, tag="CASE"):
    """Yield JSON records printed by `PrintT(<<"CASE", ToJson(rec)>>)`."""
    for line in out.splitlines():
        if not line.startswith('<<"' + tag):
            continue
        m = _CASE.match(line)
        if not m:
            continue
        s = m.group(2)
        # TLC prints the string with TLA+ escapes: \" and \\ .
        s = s.replace('\\\\', '\x00').replace('\\"', '"').replace('\x00', '\\')
        try:
            yield json.loads(s)
        except ValueError:
            log("unparsable CASE line: " + line[:200])
            raise Inconclusive("unparsable TLC CASE line")


def dedupe_histories(recs, complete=lambda e: e.get("status", 1) != 0 or e.get("ev") == "tick", drop_last=False):
    """TLC's simulator evaluates invariants on every successor of the last state, so a behaviour is printed once per
    successor: keep one history per distinct sequence of completed steps."""
    seen = set()
    for r in recs:
        h = [e for e in r["hist"] if complete(e)]
        if drop_last:
            h = h[:-1]  # the successors of the last state differ in their last event only
        k = json.dumps(h, sort_keys=True)
        if k in seen or not h:
            continue
        seen.add(k)
        out = dict(r)
        out["hist"] = h
        yield out


def write_cases(recs, path):
    n = 0
    with open(path, "w") as fh:
        for r in recs:
            fh.write(json.dumps(r, sort_keys=True))
            fh.write("\n")
            n += 1
    return n


def read_ndjson(path):
    with open(path) as fh:
        for line in fh:
            line = line.strip()
            if line:
                yield json.loads(line)


# -------------------------------------------------------------------- known findings
def load_known(pid):
    p = os.path.join(VERIF, "known_findings.json")
    if not os.path.exists(p):
        return []
    with open(p) as fh:
        data = json.load(fh)
    return [k for k in data.get("findings", []) if k.get("property") == pid]


def _get(rec, dotted):
    cur = rec
    for part in dotted.split("."):
        if isinstance(cur, dict) and part in cur:
            cur = cur[part]
        else:
            return None
    return cur


def selector_matches(sel, rec):
    """A selector is a conjunction of `dotted.field: regex` over the violation record."""
    if not sel:
        return False
    for k, rx in sel.items():
        v = _get(rec, k)
        if v is None:
            return False
        if not isinstance(v, str):
            v = json.dumps(v, sort_keys=True)
        if not re.search(rx, v):
            return False
    return True


def main(pid, fn, level="model_checking"):
    """Entry point used by bin/check: fn(run) performs the check."""
    import argparse
    ap = argparse.ArgumentParser()
    ap.add_argument("--tier", default=os.environ.get("VERIF_TIER", "quick"))
    ap.add_argument("--replay", default=None)
    a = ap.parse_args(sys.argv[2:])
    seed = int(os.environ.get("VERIF_SEED", "1") or "1")
    run = Run(pid, a.tier if a.tier in ("quick", "thorough") else "quick", seed, level)
    run.replay = a.replay
    if not a.replay:
        # replay files always belong to the run that printed them
        shutil.rmtree(os.path.join(VERIF, "replays", pid), ignore_errors=True)
    try:
        fn(run)
        if a.replay:
            # --replay <file>: the check is run again and the recorded scenario is looked for among what it finds now
            # (exit 1: it shows again; exit 0: it does not; the evidence file is rewritten as by any run)
            rec = json.load(open(a.replay))
            if isinstance(rec, list):
                rec = rec[0] if rec else {}
            volatile = {"run", "choices", "worker", "issued"}
            same = lambda v: all(v.get(k) == rec[k] for k in rec if k not in volatile and k in v) and v.get("check") == rec.get("check")
            again = any(same(v) for v in run.violations)
            print("REPLAY property=%s file=%s reproduced=%s" % (pid, a.replay, "yes" if again else "no"))
            run.finish()
            rc = 1 if again else 0
        else:
            rc = run.finish()
    except Inconclusive as e:
        log("INCONCLUSIVE %s: %s" % (pid, e))
        rc = 2
    finally:
        run.cleanup()
    sys.exit(rc)


# -------------------------------------------------------------------- trace validation (backward conformance)
def _segments(lines):
    """Split an ndjson trace into executions; every execution starts with a {"ev":"reset"} line."""
    segs, cur = [], []
    for ln in lines:
        if '"ev":"reset"' in ln and cur:
            segs.append(cur)
            cur = []
        cur.append(ln)
    if cur:
        segs.append(cur)
    return segs


def validate_traces(run, module, cfg_text, trace_path, name, max_rejects=8, timeout=1800, heap="4g"):
    """TLC must accept every recorded execution as a behaviour of `module` (with every INVARIANT of the cfg
    evaluated at every step).  Returns (n_accepted, rejected) where rejected is a list of dicts
    {reason, at, events}.  A rejected execution is cut out and the remainder re-validated so that every
    execution gets a verdict."""
    with open(trace_path) as fh:
        lines = [ln.rstrip("\n") for ln in fh if ln.strip()]
    segs = _segments(lines)
    total = len(segs)
    rejected = []
    it = 0
    while segs:
        it += 1
        flat = [ln for s in segs for ln in s]
        tf = os.path.join(run.work, "trace_%s_%d.ndjson" % (name, it))
        with open(tf, "w") as fh:
            fh.write("\n".join(flat) + "\n")
        r = run.tlc(module, "trace_run.cfg", workers=1, heap=heap, timeout=timeout, deque=True,
                    files=[(tf, "trace.ndjson")], defines={"trace_run.cfg": cfg_text}, name="%s_trace%d" % (name, it))
        out = r["out"]
        if r["rc"] == 0 and "REJECTED_AT" not in out:
            break
        at, reason = None, None
        m = re.search(r'<<"REJECTED_AT", (\d+)>>', out)
        inv = re.search(r"Invariant (\w+) is violated", out)
        if inv:
            reason = "invariant " + inv.group(1) + " violated by a recorded execution"
            ls = re.findall(r"^/\\ l = (\d+)", out, re.M)
            if ls:
                at = int(ls[-1]) - 1  # the last consumed event
        elif m:
            at = int(m.group(1))
            reason = "recorded event is not an enabled step of the specification"
        if at is None:
            tail = "\n".join(out.splitlines()[-30:])
            raise Inconclusive("trace validation of %s failed without a verdict (rc=%d)\n%s" % (name, r["rc"], tail))
        at = max(1, min(at, len(flat)))
        # locate the execution containing line `at`
        pos, idx = 0, 0
        for i, s in enumerate(segs):
            if pos < at <= pos + len(s):
                idx = i
                break
            pos += len(s)
        seg = segs.pop(idx)
        rejected.append({"reason": reason, "at_event": at - pos, "events": [json.loads(x) for x in seg]})
        if len(rejected) >= max_rejects:
            break
    return total - len(rejected), rejected
