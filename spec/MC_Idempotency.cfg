SPECIFICATION Spec
CONSTANTS
  Procs = {1, 2, 3}
  Keys = {"k1", "k2"}
  Faults = {"", "get1", "get2", "lock"}
  Locking = TRUE
INVARIANT AtMostOnce
INVARIANT SameAnswer
INVARIANT RecordedIsExecuted
INVARIANT FaultMeansNoRun
INVARIANT MutexPerKey
INVARIANT BypassUnaffected
INVARIANT NoStuck
