SPECIFICATION Spec
CONSTANTS
  MaxFields = 2
  MaxFiles = 2
INVARIANT Emit
INVARIANT FilesKeepFields
