SPECIFICATION Spec
CONSTANTS
  Hosts = {"a.test", "b.test", "a.test:8080"}
  Paths <- D_Paths
  Names = {"n1", "n2"}
  Values = {"v1", "v2"}
  HistDepth = 14
INVARIANT EmitHist
INVARIANT OnePerIdentity
