---------------------------- MODULE ErrorHandler ----------------------------
(***************************************************************************
 C08 -- every error the handler chain returns to the framework (including the
 framework's own 404) is delivered exactly once to exactly one error handler:
 that of the innermost mounted sub-application that configured one and whose mount
 prefix contains the request path on a segment boundary, otherwise the root's.
 A failing error handler yields 500; under the default handler the status of a
 framework error value is the response status.
 ***************************************************************************)
EXTENDS Naturals, Sequences, FiniteSets, TLC, Json

CONSTANTS AppPool,      \* records [id, full, parent, local]: candidate mounted apps (full = joined mount prefix, chars)
          MaxApps,
          ErrKinds,     \* "fiber418" | "plain" | "notfound" | "wrapped418" (a framework error value a middleware annotated on the way
                        \* up, fmt.Errorf("...: %w", err): still a framework error value)
          Tails         \* what is appended to a prefix to form request paths (chars)

VARIABLES apps,        \* chosen subset of AppPool (closed under parent)
          cfg,         \* id -> [has, fails]   (id 0 is the root application)
          path, kind, phase, delivered, status
vars == <<apps, cfg, path, kind, phase, delivered, status>>

IsPrefix(p, s) == Len(p) <= Len(s) /\ SubSeq(s, 1, Len(p)) = p
\* prefix contains path on a segment boundary
Contains(pre, p) == \/ pre = <<"/">>
                    \/ p = pre
                    \/ (IsPrefix(pre, p) /\ Len(p) > Len(pre) /\ p[Len(pre) + 1] = "/")
Ids == {a.id : a \in apps}
AppOf(i) == CHOOSE a \in apps : a.id = i
Cands(p) == {a \in apps : cfg[a.id].has /\ Contains(a.full, p)}
\* innermost = longest prefix (candidates all contain p on a boundary, hence are nested prefixes of each other)
Chosen(p) == IF Cands(p) = {} THEN 0
             ELSE (CHOOSE a \in Cands(p) : \A b \in Cands(p) : Len(b.full) <= Len(a.full)).id

Closed(S) == \A a \in S : a.parent = 0 \/ \E b \in S : b.id = a.parent
\* a configured handler may itself fail: with a plain error or with a framework error value carrying another status
Flags == [has : BOOLEAN, fails : {"no", "plain", "fiber503"}]

Init == /\ apps \in {S \in SUBSET AppPool : S # {} /\ Cardinality(S) <= MaxApps /\ Closed(S)
                                            /\ (\A a, b \in S : a # b => a.full # b.full)
                                            \* apps whose prefix is only SPELLED specially (capitals, trailing slash at the mount
                                            \* call) are combined with at most one other app: the confusable structure is in the rest
                                            /\ ((\E z \in S : z.id >= 8) => Cardinality(S) <= 2)}
        /\ cfg = [i \in {0} |-> [has |-> FALSE, fails |-> "no"]]
        /\ path = <<>> /\ kind = "" /\ phase = "config" /\ delivered = <<>> /\ status = 0

Configure == /\ phase = "config"
             /\ \E f \in [Ids \cup {0} -> Flags] :
                   /\ \A i \in DOMAIN f : f[i].fails # "no" => f[i].has
                   /\ cfg' = f
             /\ phase' = "request" /\ UNCHANGED <<apps, path, kind, delivered, status>>

Raise == /\ phase = "request"
         /\ \E a \in apps, t \in Tails, k \in ErrKinds :
               /\ path' = (IF a.full = <<"/">> THEN <<>> ELSE a.full) \o t /\ kind' = k
         /\ phase' = "raised" /\ UNCHANGED <<apps, cfg, delivered, status>>

\* the framework selects ONE handler and calls it ONCE
Deliver == /\ phase = "raised"
           /\ LET h == Chosen(path) IN
              /\ delivered' = Append(delivered, h)
              /\ status' = IF cfg[h].fails # "no" THEN 500
                           ELSE IF cfg[h].has THEN 520 + h           \* the harness' custom handlers answer 520+id
                           ELSE CASE kind \in {"fiber418", "wrapped418"} -> 418 [] kind = "notfound" -> 404 [] OTHER -> 500
           /\ phase' = "done" /\ UNCHANGED <<apps, cfg, path, kind>>

Next == Configure \/ Raise \/ Deliver
Spec == Init /\ [][Next]_vars

ExactlyOnce == phase = "done" => Len(delivered) = 1
ChosenIsScoped == phase = "done" =>
    LET h == delivered[1] IN h = 0 \/ (cfg[h].has /\ Contains(AppOf(h).full, path))
\* nothing deeper that configured a handler contains the path
ChosenIsInnermost == phase = "done" =>
    LET h == delivered[1] IN \A a \in Cands(path) : h # 0 /\ Len(a.full) <= Len(AppOf(h).full)

Emit == phase = "done" =>
  PrintT(<<"CASE", ToJson([apps |-> apps, cfg |-> [i \in DOMAIN cfg |-> [id |-> i, has |-> cfg[i].has, fails |-> cfg[i].fails]],
                            path |-> path, kind |-> kind, chosen |-> delivered[1], status |-> status])>>)
=============================================================================
