------------------------------ MODULE Limiter ------------------------------
(***************************************************************************
 C13 -- the rate limiter, at the grain of its critical sections.

 One action per gate / critical section of the middleware, in code order:
   Start (MaxFunc, KeyGenerator) . Lock . Get . Set (roll window, count, write back) . Unlock .
   Reject(retryAfter) | Handler . [ Lock2 . Get2 . Set2 (un-count a skipped request) . Unlock2 ] . Done
 plus the environment action Tick.  The store has the storage's TTL semantics
 (an entry is gone iff its deadline <= now).

 Alg = "fixed":   an entry [curr, exp]; a request is admitted iff curr (after counting it) <= its max
 Alg = "sliding": admitted iff  floor(prev * (exp - now) / Exp) + curr <= its max
 ***************************************************************************)
EXTENDS Integers, Sequences, FiniteSets, TLC

CONSTANTS Procs, Keys, Alg, Exp, Maxes,      \* Maxes: the limits MaxFunc may return
          SkipFailed, SkipSuccessful,
          MaxClock, Locking                   \* Locking = FALSE gives the mutant without the mutex (vacuity guard)

VARIABLES clock, store, mutex, pc, loc, ghost, out,
          adm,     \* per key: [wexp, n] requests that reached the handler and stay counted, in the window ending at wexp
          hist     \* history of completed requests and ticks (output only; not part of the VIEW)
vars == <<clock, store, mutex, pc, loc, ghost, out, adm, hist>>

Nil == [curr |-> 0, prev |-> 0, exp |-> 0, dl |-> 0]
NoLoc == [key |-> "", max |-> 0, hs |-> 0, e |-> Nil, remaining |-> 0, ra |-> 0, wexp |-> 0]
Live(k) == IF store[k].dl # 0 /\ store[k].dl > clock THEN store[k] ELSE Nil

\* window roll-over exactly as coded
Roll(e) == IF e.exp = 0 THEN [e EXCEPT !.exp = clock + Exp]
           ELSE IF clock >= e.exp THEN
                  IF Alg = "fixed" THEN [e EXCEPT !.curr = 0, !.exp = clock + Exp]
                  ELSE LET el == clock - e.exp IN
                       [e EXCEPT !.prev = e.curr, !.curr = 0, !.exp = IF el >= Exp THEN clock + Exp ELSE clock + Exp - el]
           ELSE e
Rate(e) == IF Alg = "fixed" THEN e.curr ELSE ((e.prev * (e.exp - clock)) \div Exp) + e.curr
\* where prev*(exp-now)/Exp is an exact integer the float computation may land just below it
Fuzzy(e) == Alg = "sliding" /\ e.prev * (e.exp - clock) > 0 /\ (e.prev * (e.exp - clock)) % Exp = 0
TTL(e) == IF Alg = "fixed" THEN clock + Exp ELSE e.exp + Exp

Init == /\ clock = 0 /\ store = [k \in Keys |-> Nil] /\ mutex = 0
        /\ pc = [p \in Procs |-> "idle"] /\ loc = [p \in Procs |-> NoLoc]
        /\ ghost = [k \in Keys |-> [exp |-> 0, n |-> 0]]   \* window (by its end) and the requests counted and not un-counted in it
        /\ out = [p \in Procs |-> [status |-> 0, ra |-> 0]]
        /\ adm = [k \in Keys |-> [wexp |-> 0, n |-> 0]] /\ hist = <<>>

Skipped(p) == (SkipSuccessful /\ loc[p].hs < 400) \/ (SkipFailed /\ loc[p].hs >= 400)

Start(p, k, mx, hs) ==
  /\ pc[p] = "idle" /\ pc' = [pc EXCEPT ![p] = "lock"]
  /\ loc' = [loc EXCEPT ![p] = [NoLoc EXCEPT !.key = k, !.max = mx, !.hs = hs]]
  /\ UNCHANGED <<clock, store, mutex, ghost, out, adm, hist>>

Lock(p) == /\ pc[p] = "lock" /\ (~Locking \/ mutex = 0) /\ mutex' = (IF Locking THEN p ELSE 0)
           /\ pc' = [pc EXCEPT ![p] = "get"] /\ UNCHANGED <<clock, store, loc, ghost, out, adm, hist>>

Get(p) == /\ pc[p] = "get" /\ loc' = [loc EXCEPT ![p].e = Live(loc[p].key)]
          /\ pc' = [pc EXCEPT ![p] = "set"] /\ UNCHANGED <<clock, store, mutex, ghost, out, adm, hist>>

Set(p) ==
  /\ pc[p] = "set"
  /\ LET k == loc[p].key
         e0 == Roll(loc[p].e)
         e == [e0 EXCEPT !.curr = @ + 1]
         rolled == e0.curr = 0 /\ loc[p].e.curr # 0
     IN /\ store' = [store EXCEPT ![k] = [e EXCEPT !.dl = TTL(e)]]
        /\ loc' = [loc EXCEPT ![p].remaining = loc[p].max - Rate(e), ![p].ra = e.exp - clock, ![p].e = e, ![p].wexp = e.exp]
        /\ ghost' = [ghost EXCEPT ![k] = IF @.exp = e.exp THEN [@ EXCEPT !.n = @ + 1] ELSE [exp |-> e.exp, n |-> 1]]
  /\ pc' = [pc EXCEPT ![p] = "unlock"] /\ UNCHANGED <<clock, mutex, out, adm, hist>>

Unlock(p) == /\ pc[p] = "unlock" /\ mutex' = 0
             /\ pc' = [pc EXCEPT ![p] = IF loc[p].remaining < 0 THEN "reject" ELSE "handler"]
             /\ LET k == loc[p].key IN
                adm' = IF loc[p].remaining < 0 \/ Skipped(p) THEN adm
                       ELSE [adm EXCEPT ![k] = IF @.wexp = loc[p].e.exp THEN [@ EXCEPT !.n = @ + 1] ELSE [wexp |-> loc[p].e.exp, n |-> 1]]
             /\ UNCHANGED <<clock, store, loc, ghost, out, hist>>

Rec(p, st, ra) == [ev |-> "req", p |-> p, key |-> loc[p].key, max |-> loc[p].max, hs |-> loc[p].hs, status |-> st, ra |-> ra,
                   fuzzy |-> Fuzzy(loc[p].e), d |-> 0]
Reject(p) == /\ pc[p] = "reject" /\ out' = [out EXCEPT ![p] = [status |-> 429, ra |-> loc[p].ra]]
             /\ hist' = Append(hist, Rec(p, 429, loc[p].ra))
             /\ pc' = [pc EXCEPT ![p] = "done"] /\ UNCHANGED <<clock, store, mutex, loc, ghost, adm>>

Handler(p) == /\ pc[p] = "handler" /\ out' = [out EXCEPT ![p] = [status |-> loc[p].hs, ra |-> 0]]
              /\ hist' = Append(hist, Rec(p, loc[p].hs, 0))
              /\ pc' = [pc EXCEPT ![p] = IF Skipped(p) THEN "lock2" ELSE "done"]
              /\ UNCHANGED <<clock, store, mutex, loc, ghost, adm>>

Lock2(p) == /\ pc[p] = "lock2" /\ (~Locking \/ mutex = 0) /\ mutex' = (IF Locking THEN p ELSE 0)
            /\ pc' = [pc EXCEPT ![p] = "get2"] /\ UNCHANGED <<clock, store, loc, ghost, out, adm, hist>>
Get2(p) == /\ pc[p] = "get2" /\ loc' = [loc EXCEPT ![p].e = Live(loc[p].key)]
           /\ pc' = [pc EXCEPT ![p] = "set2"] /\ UNCHANGED <<clock, store, mutex, ghost, out, adm, hist>>
\* a skipped request is un-counted only where it was counted: in its own window, or (sliding) in the previous
\* window's count if the window has rolled over once meanwhile; otherwise nothing is written
Uncount(p, e) ==
  IF e.exp = loc[p].wexp THEN [e EXCEPT !.curr = @ - 1]
  ELSE IF Alg = "sliding" /\ e.exp = loc[p].wexp + Exp /\ e.prev > 0 THEN [e EXCEPT !.prev = @ - 1]
  ELSE e
Writes2(p) == IF Alg = "fixed" THEN loc[p].e.exp = loc[p].wexp ELSE loc[p].e.exp # 0
Set2(p) == /\ pc[p] = "set2" /\ Writes2(p)
           /\ LET k == loc[p].key  e == Uncount(p, loc[p].e) IN
              /\ store' = [store EXCEPT ![k] = [e EXCEPT !.dl = IF Alg = "fixed" THEN clock + Exp
                                                                ELSE (IF e.exp > clock THEN e.exp + Exp ELSE clock + Exp)]]
              /\ loc' = [loc EXCEPT ![p].e = e]
              \* the truth: the request leaves the count of the window that counted it (if that is still the current one)
              /\ ghost' = [ghost EXCEPT ![k] = IF @.exp = loc[p].wexp THEN [@ EXCEPT !.n = @ - 1] ELSE @]
           /\ pc' = [pc EXCEPT ![p] = "unlock2"] /\ UNCHANGED <<clock, mutex, out, adm, hist>>
\* its window is gone: nothing to un-count, nothing written
Skip2(p) == /\ pc[p] = "set2" /\ ~Writes2(p) /\ pc' = [pc EXCEPT ![p] = "unlock2"]
            /\ UNCHANGED <<clock, store, mutex, loc, ghost, out, adm, hist>>
Unlock2(p) == /\ pc[p] = "unlock2" /\ mutex' = 0 /\ pc' = [pc EXCEPT ![p] = "done"]
              /\ UNCHANGED <<clock, store, loc, ghost, out, adm, hist>>

Tick(d) == /\ clock + d <= MaxClock /\ clock' = clock + d
           /\ hist' = Append(hist, [ev |-> "tick", p |-> 0, key |-> "", max |-> 0, hs |-> 0, status |-> 0, ra |-> 0, fuzzy |-> FALSE, d |-> d])
           /\ UNCHANGED <<store, mutex, pc, loc, ghost, out, adm>>

\* a worker serves the next request
Reuse(p) == /\ pc[p] = "done" /\ pc' = [pc EXCEPT ![p] = "idle"] /\ loc' = [loc EXCEPT ![p] = NoLoc]
            /\ out' = [out EXCEPT ![p] = [status |-> 0, ra |-> 0]]
            /\ UNCHANGED <<clock, store, mutex, ghost, adm, hist>>

Statuses == {200, 500}
Next == \/ \E p \in Procs : \/ \E k \in Keys, mx \in Maxes, hs \in Statuses : Start(p, k, mx, hs)
                            \/ Lock(p) \/ Get(p) \/ Set(p) \/ Unlock(p) \/ Reject(p) \/ Handler(p)
                            \/ Lock2(p) \/ Get2(p) \/ Set2(p) \/ Skip2(p) \/ Unlock2(p) \/ Reuse(p)
        \/ \E d \in 1..Exp : Tick(d)
Spec == Init /\ [][Next]_vars

---------------------------------------------------------------------------
\* while nobody is inside a critical section on k, the stored count equals the number of requests of
\* the current window that were counted and not un-counted: no lost update
InCrit(k) == \E p \in Procs : loc[p].key = k /\ pc[p] \in {"set", "unlock", "set2", "unlock2"}
NoLostUpdate == \A k \in Keys : (~InCrit(k) /\ Live(k) # Nil /\ clock < Live(k).exp /\ ghost[k].exp = Live(k).exp) => Live(k).curr = ghost[k].n
\* a request reaches the handler only within its own limit and is rejected only beyond it
\* (remaining is computed inside the critical section from the entry just written)
AdmitWithinLimit == \A p \in Procs : pc[p] = "handler" => loc[p].remaining >= 0
RejectOnlyExhausted == \A p \in Procs : pc[p] = "reject" => loc[p].remaining < 0
MutexHolder == mutex # 0 => pc[mutex] \in {"get", "set", "unlock", "get2", "set2", "unlock2"}
OtherKeysUntouched == [][\A p \in Procs, k \in Keys : (pc[p] \in {"set", "set2"} /\ loc[p].key # k) => (pc'[p] # pc[p] => store'[k] = store[k])]_vars
\* fixed window with one constant limit: at most that many requests reach the handler and stay counted per window
WindowBudget == (Alg = "fixed" /\ Cardinality(Maxes) = 1) => \A k \in Keys : \A mx \in Maxes : adm[k].n <= mx
View == <<clock, store, mutex, pc, loc, ghost, adm>>
=============================================================================
