-------------------------------- MODULE Flash --------------------------------
(***************************************************************************
 C12 -- flash messages and old input attached to a redirect are delivered, intact, to the
 handler of the next request that carries the issued cookie; that response expires the
 cookie, so a conforming client presents them exactly once; requests without the cookie
 see none; a cookie that is not a well-formed encoding yields none, at bounded cost.

 `jar` is the cookie store of the client; a CONFORMING client stores a cookie only if its
 value is made of cookie-octets (RFC 6265), a TRANSPARENT one copies the bytes verbatim off the
 wire, an IN-PROCESS one (what the repository's own tests do) takes them from the response object.
 ***************************************************************************)
EXTENDS Naturals, Sequences, FiniteSets, TLC, Json
CONSTANTS KeyClasses, ValClasses, Levels, MaxMsgs, HostileKinds,
          Faults      \* how the request that receives the messages ends: "none" | "handler" (its handler returns an error after reading
                      \* them) | "double" (and the application's error handler fails too) -- the response expires the cookie all the same
Msg == [key : KeyClasses, value : ValClasses, level : Levels, old : BOOLEAN]
VARIABLES stage, client, pending, jar, seen, hostile,
          extra,    \* the client also holds an unrelated cookie, which it sends BEFORE the flash cookie
          via,      \* how the redirect was issued: To(url) | Route(name) | Route(name, with query parameters) | Back(fallback)
          fault
vars == <<stage, client, pending, jar, seen, hostile, extra, via, fault>>
Vias == {"to", "route", "routequery", "back"}
\* message sets: distinct keys per kind (With() replaces an equal key), old input carries no level
OkMsg == {m \in Msg : m.old => m.level = 0}
MsgSets == {{a} : a \in OkMsg} \cup
           (IF MaxMsgs >= 2 THEN {S \in {{a, b} : a \in OkMsg, b \in OkMsg} : Cardinality(S) = 2 /\ \A x, y \in S : x # y => ~(x.key = y.key /\ x.old = y.old)} ELSE {})
Init == /\ stage = "start" /\ client \in {"conforming", "transparent", "inprocess"} /\ pending = {} /\ jar = "empty"
        /\ seen = <<>> /\ hostile = "none" /\ extra \in BOOLEAN /\ via = "to"
        /\ fault \in Faults /\ (fault # "none" => client # "conforming")      \* (the harness injects the fault on its own connections)

\* the server answers a request with Redirect().With(...).WithInput().To(...): the response carries the flash cookie
\* (whichever way the redirect is issued)
RedirectWith == /\ stage = "start" /\ \E S \in MsgSets : pending' = S
                /\ via' \in Vias
                /\ stage' = "redirected" /\ jar' = "flash" /\ UNCHANGED <<client, seen, hostile>>
\* the client follows the redirect presenting the cookie: the handler sees exactly the pending messages; the response expires the cookie
Follow == /\ stage = "redirected" /\ jar = "flash"
          /\ seen' = Append(seen, pending) /\ jar' = "empty" /\ stage' = "followed" /\ UNCHANGED <<client, pending, hostile, via>>
\* any later request: nothing is presented, nothing is seen
Again == /\ stage = "followed" /\ seen' = Append(seen, {}) /\ stage' = "done" /\ UNCHANGED <<client, pending, jar, hostile, via>>
\* independently: a request carrying a cookie that is not a well-formed encoding sees nothing
Hostile == /\ stage = "start" /\ \E k \in HostileKinds : hostile' = k
           /\ seen' = <<{}>> /\ stage' = "done" /\ UNCHANGED <<client, pending, jar, via>>
\* and a request without any cookie sees nothing
NoCookie == /\ stage = "start" /\ hostile' = "nocookie" /\ seen' = <<{}>> /\ stage' = "done" /\ UNCHANGED <<client, pending, jar, via>>
Next == (RedirectWith \/ Follow \/ Again \/ Hostile \/ NoCookie) /\ UNCHANGED <<extra, fault>>
Spec == Init /\ [][Next]_vars

DeliveredOnce == stage = "done" /\ pending # {} => Cardinality({i \in 1..Len(seen) : seen[i] = pending}) = 1
Emit == stage = "done" => PrintT(<<"CASE", ToJson([client |-> client, pending |-> pending, hostile |-> hostile, seen |-> seen, extra |-> extra, via |-> via, fault |-> fault])>>)
=============================================================================
