SPECIFICATION MCSpec
CONSTANTS
  Procs = {1, 2}
  Keys = {"a", "b"}
  Bodies = {"mm", "llllll"}
  MaxBytes = 7
  Exp = 2
  MaxClock = 3
  FetchUnderLock = FALSE
  AnyIdx = FALSE
  MaxReq = 2
  Invals = {FALSE}
  MCStatuses = {200}
  NCs = {FALSE}
INVARIANT NoCorruption
INVARIANT Accounting
INVARIANT Bounded
INVARIANT HeldBounded
INVARIANT Tracked
INVARIANT HitCorrect
INVARIANT MutexHolder
INVARIANT NoStuck
INVARIANT NeverStoreUncacheable
