SPECIFICATION Spec
CONSTANTS
  Idle = 5
  Abs = 9
  Vals = {"va", "vb"}
  HistDepth = 40
  MaxIds = 30
  Ops = {"begin", "foreign", "set", "del", "destroy", "regenerate", "reset", "save", "reget", "getbyid", "storedelete", "freeticks", "byidsave"}
  Modes = {"middleware", "store"}
INVARIANT EmitHist
INVARIANT NeverAdoptForeignId
INVARIANT FreshMeansNew
