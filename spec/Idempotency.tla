---------------------------- MODULE Idempotency ----------------------------
(***************************************************************************
 C17 -- idempotency keys: per key the downstream handler completes successfully at most
 once, every answered duplicate gets the recorded response, faults in lookup or lock
 acquisition give an error without running the handler, other keys are unaffected.

 One action per gate of the middleware, in code order:
   Start . [no key or safe method: Bypass -- the handler runs, nothing else happens] FastCheck(get) . [cached: ReplyCached] LockAcq . ReCheck(get) . [cached: Unlock . ReplyCached]
         . Execute(ok | error) . [ok: Record(set)] . Unlock . done
 The Locker is specified as what it must be: a mutex per key (MemoryLock.tla checks that the
 bundled implementation is one).
 ***************************************************************************)
EXTENDS Naturals, Sequences, FiniteSets, TLC

CONSTANTS Procs, Keys, Faults,    \* Faults: subset of {"", "get1", "get2", "lock"} a request may suffer
          Locking                  \* FALSE: the mutant whose Locker excludes nobody (vacuity guard)
VARIABLES store, holder, pc, loc, out, execs
vars == <<store, holder, pc, loc, out, execs>>

NoLoc == [key |-> "", herr |-> FALSE, fault |-> "", byp |-> FALSE]
Init == /\ store = [k \in Keys |-> 0]        \* 0 = nothing recorded, else the proc whose execution was recorded
        /\ holder = [k \in Keys |-> 0]
        /\ pc = [p \in Procs |-> "idle"] /\ loc = [p \in Procs |-> NoLoc]
        /\ out = [p \in Procs |-> [kind |-> "", exec |-> 0]]
        /\ execs = [k \in Keys |-> {}]       \* ghost: procs whose handler completed successfully for k

U(p, new) == pc' = [pc EXCEPT ![p] = new]
\* byp: the request carries no key or uses a safe method -- the middleware must stand aside
Start(p, k, herr, f, byp) == /\ pc[p] = "idle" /\ U(p, IF byp THEN "bypass" ELSE "fast")
                             /\ loc' = [loc EXCEPT ![p] = [key |-> k, herr |-> herr, fault |-> f, byp |-> byp]]
                             /\ UNCHANGED <<store, holder, out, execs>>
\* the handler runs for it whatever is recorded or locked; it neither reads nor writes the store, takes no lock, and does not
\* count as the key's execution
Bypass(p) == /\ pc[p] = "bypass" /\ U(p, "done")
             /\ out' = [out EXCEPT ![p] = IF loc[p].herr THEN [kind |-> "error", exec |-> 0] ELSE [kind |-> "executed", exec |-> p]]
             /\ UNCHANGED <<store, holder, loc, execs>>

Err(p) == out' = [out EXCEPT ![p] = [kind |-> "error", exec |-> 0]]
Cached(p) == out' = [out EXCEPT ![p] = [kind |-> "cached", exec |-> store[loc[p].key]]]

FastCheck(p) == /\ pc[p] = "fast" /\ loc[p].fault # "get1"
                /\ IF store[loc[p].key] # 0 THEN U(p, "done") /\ Cached(p) ELSE U(p, "lock") /\ UNCHANGED out
                /\ UNCHANGED <<store, holder, loc, execs>>
FastFails(p) == /\ pc[p] = "fast" /\ loc[p].fault = "get1" /\ U(p, "done") /\ Err(p) /\ UNCHANGED <<store, holder, loc, execs>>

LockAcq(p) == /\ pc[p] = "lock" /\ loc[p].fault # "lock" /\ (~Locking \/ holder[loc[p].key] = 0)
              /\ holder' = [holder EXCEPT ![loc[p].key] = p] /\ U(p, "recheck")
              /\ UNCHANGED <<store, loc, out, execs>>
LockFails(p) == /\ pc[p] = "lock" /\ loc[p].fault = "lock" /\ U(p, "done") /\ Err(p) /\ UNCHANGED <<store, holder, loc, execs>>

ReCheck(p) == /\ pc[p] = "recheck" /\ loc[p].fault # "get2"
              /\ IF store[loc[p].key] # 0 THEN U(p, "unlockC") /\ Cached(p) ELSE U(p, "handler") /\ UNCHANGED out
              /\ UNCHANGED <<store, holder, loc, execs>>
ReFails(p) == /\ pc[p] = "recheck" /\ loc[p].fault = "get2" /\ U(p, "unlockE") /\ Err(p) /\ UNCHANGED <<store, holder, loc, execs>>

Execute(p) == /\ pc[p] = "handler"
              /\ IF loc[p].herr THEN U(p, "unlockE") /\ Err(p) /\ UNCHANGED execs
                 ELSE U(p, "record") /\ execs' = [execs EXCEPT ![loc[p].key] = @ \cup {p}]
                      /\ out' = [out EXCEPT ![p] = [kind |-> "executed", exec |-> p]]
              /\ UNCHANGED <<store, holder, loc>>
Record(p) == /\ pc[p] = "record" /\ store' = [store EXCEPT ![loc[p].key] = p] /\ U(p, "unlockX")
             /\ UNCHANGED <<holder, loc, out, execs>>
Unlock(p) == /\ pc[p] \in {"unlockC", "unlockE", "unlockX"} /\ (~Locking \/ holder[loc[p].key] = p)
             /\ holder' = [holder EXCEPT ![loc[p].key] = 0] /\ U(p, "done")
             /\ UNCHANGED <<store, loc, out, execs>>

Step(p) == Bypass(p) \/ FastCheck(p) \/ FastFails(p) \/ LockAcq(p) \/ LockFails(p) \/ ReCheck(p) \/ ReFails(p) \/ Execute(p) \/ Record(p) \/ Unlock(p)
Next == \E p \in Procs : Step(p) \/ \E k \in Keys, herr \in BOOLEAN, f \in Faults, byp \in BOOLEAN : (byp => f = "") /\ Start(p, k, herr, f, byp)
Spec == Init /\ [][Next]_vars

---------------------------------------------------------------------------
AtMostOnce == \A k \in Keys : Cardinality(execs[k]) <= 1
\* every answered duplicate carries the response of THE successful execution of its key
SameAnswer == \A p \in Procs : (pc[p] = "done" /\ out[p].kind = "cached") => out[p].exec \in execs[loc[p].key]
RecordedIsExecuted == \A k \in Keys : store[k] # 0 => store[k] \in execs[k]
\* a request whose lookup or lock acquisition fails gets an error and its handler never runs
FaultMeansNoRun == \A p \in Procs : loc[p].fault # "" => p \notin UNION {execs[k] : k \in Keys}
MutexPerKey == \A k \in Keys : holder[k] # 0 => (loc[holder[k]].key = k /\ pc[holder[k]] \in {"recheck", "handler", "record", "unlockC", "unlockE", "unlockX"})
\* requests without a key or with a safe method are unaffected: they always get their own execution (or its error)
BypassUnaffected == \A p \in Procs : (pc[p] = "done" /\ loc[p].byp) => out[p] = IF loc[p].herr THEN [kind |-> "error", exec |-> 0] ELSE [kind |-> "executed", exec |-> p]
NoStuck == (\E p \in Procs : pc[p] \notin {"idle", "done"}) => ENABLED (\E p \in Procs : Step(p))
=============================================================================
