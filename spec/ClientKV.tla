------------------------------ MODULE ClientKV ------------------------------
(***************************************************************************
 C18 (request assembly, multi-valued holders) -- headers, query parameters and form
 fields are configured by CALLS, on the client and on the request: Add appends a value
 to a key, Set makes its argument the key's only value, the plural forms do the same
 for a map, Del removes a key.  What arrives at the server is, per key, the sequence of
 values the calls leave behind -- a value that was overridden is not sent.

 The holder is chosen once per behaviour; the calls are made in program order by the
 harness, exactly as recorded in `calls`.
 ***************************************************************************)
EXTENDS Naturals, Sequences, FiniteSets, TLC, Json
CONSTANTS MaxCalls
Holders == {"reqheader", "clientheader", "reqparam", "clientparam", "reqform"}
Keys == {"k1", "k2"}
Vals == {"a", "b", "c"}
\* Del exists for query parameters and form fields only
HasDel(h) == h \in {"reqparam", "clientparam", "reqform"}

VARIABLES holder, vals, calls, stage
vars == <<holder, vals, calls, stage>>
Init == holder \in Holders /\ vals = [k \in Keys |-> <<>>] /\ calls = <<>> /\ stage = "build"

Call(op, k, vs) == calls' = Append(calls, [op |-> op, k |-> k, vs |-> vs])
Add(k, v)       == /\ vals' = [vals EXCEPT ![k] = Append(@, v)] /\ Call("add", k, <<v>>)
Set(k, v)       == /\ vals' = [vals EXCEPT ![k] = <<v>>]        /\ Call("set", k, <<v>>)
\* AddHeaders / AddParams / AddFormDataWithMap with one key and two values
AddMany(k, v, w) == /\ vals' = [vals EXCEPT ![k] = @ \o <<v, w>>] /\ Call("addmany", k, <<v, w>>)
\* SetHeaders / SetParams / SetFormDataWithMap with one key
SetMany(k, v)   == /\ vals' = [vals EXCEPT ![k] = <<v>>]        /\ Call("setmany", k, <<v>>)
Del(k)          == /\ HasDel(holder) /\ vals' = [vals EXCEPT ![k] = <<>>] /\ Call("del", k, <<>>)

Build == /\ stage = "build" /\ Len(calls) < MaxCalls
         /\ \E k \in Keys, v \in Vals, w \in Vals : Add(k, v) \/ Set(k, v) \/ (v # w /\ AddMany(k, v, w)) \/ SetMany(k, v) \/ Del(k)
         /\ UNCHANGED <<holder, stage>>
Send == stage = "build" /\ calls # <<>> /\ stage' = "sent" /\ UNCHANGED <<holder, vals, calls>>
Next == Build \/ Send
Spec == Init /\ [][Next]_vars

\* after Set the key has exactly that value, whatever was added before
SetOverrides == \A i \in 1..Len(calls) : (calls[i].op \in {"set", "setmany"} /\ \A j \in (i + 1)..Len(calls) : calls[j].k # calls[i].k)
                                           => vals[calls[i].k] = calls[i].vs
Emit == stage = "sent" => PrintT(<<"CASE", ToJson([holder |-> holder, calls |-> calls, arrives |-> vals])>>)
=============================================================================
