------------------------- MODULE Idempotency_Trace -------------------------
(* Backward conformance for C17: executions of the real idempotency middleware (real MemoryLock behind a logging
   wrapper, gated storage with fault injection) recorded by the gate scheduler must be behaviours of Idempotency.tla. *)
EXTENDS Idempotency, TraceBase
TInit == TLCSet(7, 0) /\ Init /\ l = 1 /\ silent = 0
P == Cur.p
TStart == IsEv("start") /\ Start(P, Cur.key, Cur.herr, Cur.fault, Cur.byp) /\ Consume
\* a lookup: present iff something is recorded for the key
TGet == IsEv("get") /\ loc[P].key = Cur.key /\ (FastCheck(P) \/ ReCheck(P)) /\ (Cur.present <=> store[Cur.key] # 0) /\ Consume
TGetFail == IsEv("getfail") /\ (FastFails(P) \/ ReFails(P)) /\ Consume
TLock == IsEv("lock") /\ LockAcq(P) /\ loc[P].key = Cur.key /\ Consume
TLockFail == IsEv("lockfail") /\ LockFails(P) /\ Consume
THandler == IsEv("handler") /\ (Execute(P) \/ Bypass(P)) /\ Consume
TSet == IsEv("set") /\ Record(P) /\ loc[P].key = Cur.key /\ Consume
TUnlock == IsEv("unlock") /\ Unlock(P) /\ loc[P].key = Cur.key /\ Consume
\* what the client got: an error, the response of its own execution, or the recorded response of the key's execution
\* (`only`: every execution sends one kept header whose NAME no other execution uses; the answer carries exactly the one of the
\* execution it reports -- nothing of another key's or another execution's response, and an error carries none)
TEnd == IsEv("end") /\ pc[P] = "done" /\ out[P].kind = Cur.kind /\ (Cur.kind # "error" => out[P].exec = Cur.exec)
        /\ Cur.only = (IF Cur.kind = "error" THEN <<>> ELSE <<out[P].exec>>)
        /\ pc' = [pc EXCEPT ![P] = "idle"] /\ UNCHANGED <<store, holder, loc, out, execs>> /\ Consume
TReset == IsEv("reset") /\ Consume /\ store' = [k \in Keys |-> 0] /\ holder' = [k \in Keys |-> 0]
          /\ pc' = [p \in Procs |-> "idle"] /\ loc' = [p \in Procs |-> NoLoc]
          /\ out' = [p \in Procs |-> [kind |-> "", exec |-> 0]] /\ execs' = [k \in Keys |-> {}]
TNext == TStart \/ TGet \/ TGetFail \/ TLock \/ TLockFail \/ THandler \/ TSet \/ TUnlock \/ TEnd \/ TReset
TSpec == TInit /\ [][TNext]_<<vars, l, silent>>
TView == <<vars, l, silent>>
=============================================================================
