SPECIFICATION Spec
CONSTANTS
  Kinds = {"plain", "params", "locals", "viewbind", "redirectwith", "withinput", "flashfull", "flashpartial", "flashtrunc", "bindquery", "bindauto", "resphdr", "baseurl", "error", "notallowed", "sendfilemaxage", "optparam", "viewrender", "localsrender", "jsonp"}
  Probes = {"plain", "params", "flashpartial", "flashshort", "bindbad", "star", "optparam", "sendfile", "rendernil", "jsonp"}
  MaxHist = 4
  ResetFields = {"params", "locals", "viewbind", "flash", "bind", "redirect", "resphdr", "route", "baseuri", "renderbind", "respbody"}
INVARIANT NoForeignData
INVARIANT Emit
