--------------------------- MODULE PathMatch_Gen ---------------------------
(* Behaviour generation for C02/C03: every (pattern, path, config) of the scope is one
   two-step behaviour  pick pattern -> pick path+config ; the second state prints the
   prescribed observation (the three match relations and the C03 precondition flags). *)
EXTENDS PathMatch

CONSTANTS MaxSeg,      \* segments per pattern
          Pool,        \* "small" | "full"
          ShortLen     \* all paths "/"+w, |w| <= ShortLen over ShortAlpha are tried against every pattern

VARIABLES pat, path, cfg, fill, stage
vars == <<pat, path, cfg, fill, stage>>

PT(name, opt, gr, con, txt, tc) == [P(name, opt, gr, con, txt) EXCEPT !.s = tc]   \* for parameters .s carries the text as chars

ConstSmall == { C(<<"/">>, "/"), C(<<"/","a">>, "/a"), C(<<"/","a","b","/">>, "/ab/"), C(<<"-">>, "-"), C(<<".">>, ".") }
ConstFull == ConstSmall \cup
  { C(<<"/","a",":","b">>, "/a\\:b"), C(<<"/","A">>, "/A"), C(<<"/","a","/">>, "/a/"), C(<<"/","a","b","c">>, "/abc"),
    C(<<"/","a","-">>, "/a-"), C(<<"-","c">>, "-c"), C(<<".","c">>, ".c") }
ParamSmall ==
  { PT("x", FALSE, FALSE, "none", ":x", <<":","x">>),
    PT("y", TRUE,  FALSE, "none", ":y?", <<":","y","?">>),
    PT("n", FALSE, FALSE, "int", ":n<int>", <<":","n","<","i","n","t",">">>),
    PT("*", TRUE,  TRUE,  "none", "*", <<"*">>),
    PT("+", FALSE, TRUE,  "none", "+", <<"+">>) }
ParamFull == ParamSmall \cup
  { PT("m", FALSE, FALSE, "min5maxLen3", ":m<min(5);maxLen(3)>", <<":","m","<","m","i","n","(","5",")",";","m","a","x","L","e","n","(","3",")",">">>),
    PT("b", FALSE, FALSE, "bool", ":b<bool>", <<":","b","<","b","o","o","l",">">>),
    PT("w", FALSE, FALSE, "alpha", ":w<alpha>", <<":","w","<","a","l","p","h","a",">">>),
    PT("r", FALSE, FALSE, "regexA", ":r<regex(^a+$)>", <<":","r","<","r","e","g","e","x","(","^","a","+","$",")",">">>),
    PT("c", FALSE, FALSE, "even", ":c<even>", <<":","c","<","e","v","e","n",">">>),
    PT("o", TRUE,  FALSE, "minLen2", ":o<minLen(2)>?", <<":","o","<","m","i","n","L","e","n","(","2",")",">","?">>),
    PT("z", TRUE,  FALSE, "int", ":z<int>?", <<":","z","<","i","n","t",">","?">>),
    PT("g", FALSE, FALSE, "range5_20", ":g<range(5,20)>", <<":","g","<","r","a","n","g","e","(","5",",","2","0",")",">">>),
    PT("l", FALSE, FALSE, "len2", ":l<len(2)>", <<":","l","<","l","e","n","(","2",")",">">>),
    \* the application registered a constraint of its own under the NAME of a built-in one: the registered one is the declared one
    PT("u", FALSE, FALSE, "oddfloat", ":u<float>", <<":","u","<","f","l","o","a","t",">">>) }

\* "-c": a delimiting literal of two bytes whose first byte also occurs inside values ("a-b"), whose second never does
ConstMid == ConstSmall \cup { C(<<"/","A">>, "/A"), C(<<"/","a","/">>, "/a/"), C(<<"-","c">>, "-c") }
ParamMid == ParamSmall \cup { p \in ParamFull : p.name \in {"r", "z", "b", "u"} }
Consts == CASE Pool = "small" -> ConstSmall [] Pool = "mid" -> ConstMid [] OTHER -> ConstFull
Params == CASE Pool = "small" -> ParamSmall [] Pool = "mid" -> ParamMid [] OTHER -> ParamFull
Segs == Consts \cup Params

WellFormed(p) ==
  /\ p[1].k = "c" /\ p[1].s[1] = "/"
  /\ \A i \in 1..(Len(p) - 1) : ~(p[i].k = "c" /\ p[i + 1].k = "c")
  /\ \A i, j \in 1..Len(p) : (i < j /\ p[i].k = "p" /\ p[j].k = "p" /\ ~p[i].gr) => p[i].name # p[j].name
  \* runs of parameter characters ("+*", "++", ":x*") are not documented syntax: the parser folds them differently
  /\ \A i \in 1..(Len(p) - 1) : ~(p[i].k = "p" /\ p[i + 1].k = "p" /\ (p[i + 1].gr \/ p[i].name = "+"))
  \* a ':' parameter directly followed by text that would extend its name is not a pattern of the documented syntax
  /\ \A i \in 1..(Len(p) - 1) : (p[i].k = "p" /\ p[i + 1].k = "c") => p[i + 1].s[1] \in {"/", "-", "."}

\* longer patterns in which a later literal contains a greedy parameter's delimiter more than once
PX == PT("x", FALSE, FALSE, "none", ":x", <<":","x">>)
PY == PT("y", TRUE,  FALSE, "none", ":y?", <<":","y","?">>)
STAR == PT("*", TRUE,  TRUE,  "none", "*", <<"*">>)
PLUS == PT("+", FALSE, TRUE,  "none", "+", <<"+">>)
ExtraPats == IF Pool = "small" THEN {} ELSE
  { << C(<<"/">>, "/"), STAR, C(<<"-">>, "-"), PX, C(<<"-","-">>, "--"), PY >>,
    << C(<<"/">>, "/"), PLUS, C(<<".">>, "."), PX, C(<<".",".">>, ".."), PY >>,
    << C(<<"/">>, "/"), STAR, C(<<"/","a","/">>, "/a/"), PX, C(<<"/","a","/","a">>, "/a/a") >>,
    << C(<<"/","a","/">>, "/a/"), PLUS, C(<<"/","a","b","/">>, "/ab/"), STAR >>,
    << C(<<"/">>, "/"), PX, C(<<"-">>, "-"), PY, C(<<".">>, "."), STAR >> }
Pats == UNION { { p \in [1..n -> Segs] : WellFormed(p) } : n \in 1..MaxSeg } \cup ExtraPats

\* ---- values used to fill parameters
ValSmall == { <<>>, <<"a">>, <<"a","b">>, <<"1","2">>, <<"-","1">>, <<"a","-","b">>, <<"a","/","b">> }
\* near misses of the constraints: Go literal syntax is not an <int>, "TRUE"/"tRUE" case variants of <bool>, "A" vs regex(^a+$)
ValMid == ValSmall \cup { <<"A">>, <<"0","x","1">>, <<"1","_","0">>, <<"t","R","U","E">>, <<"%41">>, <<"/">>,
                           <<"%E2%84%AA","b">>, <<"B+E2","B+84","B+AA","b">> }     \* a non-ASCII letter, percent-encoded and as raw bytes
ValFull == ValMid \cup { <<"7">>, <<"t","r","u","e">>, <<"a",".","b">>, <<"a","a">>, <<"1","2","3","4">>,
                          <<"a","%2F","b">>, <<"0","0","8">>, <<"+","5">> }
Vals == CASE Pool = "small" -> ValSmall [] Pool = "mid" -> ValMid [] OTHER -> ValFull

UpC(c) == IF c = "a" THEN "A" ELSE IF c = "b" THEN "B" ELSE c
Upper(s) == [i \in 1..Len(s) |-> UpC(s[i])]

\* what may stand in the path at the place of segment i
Opts(p, i) ==
  IF p[i].k = "p" THEN [v : Vals, f : {TRUE}] \cup {[v |-> SelectSeq(p[i].s, LAMBDA ch : ch # "?"), f |-> FALSE]}   \* '?' would start the query string
  ELSE {[v |-> p[i].s, f |-> TRUE]}
       \cup (IF Pool # "small" THEN {[v |-> Upper(p[i].s), f |-> TRUE]} ELSE {})
       \cup (IF i = Len(p) THEN {[v |-> p[i].s \o <<"/">>, f |-> FALSE], [v |-> TrimAll(p[i].s), f |-> FALSE]} ELSE {})

ShortAlpha == {"/", "a", "1", "-", ":"}
ShortPaths == UNION { { <<"/">> \o w : w \in [1..n -> ShortAlpha] } : n \in 0..ShortLen }

HasTok(s) == \E i \in 1..Len(s) : s[i] \in Tok3
HasUp(s) == \E i \in 1..Len(s) : s[i] \in {"A", "B"}
OkPath(s) == s # <<>> /\ s[1] = "/" /\ ~(Len(s) >= 2 /\ s[2] \in {"/", "%2F"})     \* "//..." is a network-path reference for fasthttp

CfgsFor(s, p) == [cs : (IF HasUp(s) \/ HasUp(PatText(p)) THEN BOOLEAN ELSE {FALSE}),
                  strict : BOOLEAN,
                  \* fasthttp's unquoting also turns '+' into a space: paths with '+' are kept out of the UnescapePath configs
                  unesc : (IF HasTok(s) /\ ~HasChar(s, "+") THEN BOOLEAN ELSE {FALSE})]

NoCfg == [cs |-> FALSE, strict |-> FALSE, unesc |-> FALSE]
Init == pat \in Pats /\ path = <<>> /\ cfg = NoCfg /\ fill = <<>> /\ stage = 0

RECURSIVE Choices(_, _)
Choices(p, i) == IF i > Len(p) THEN {<<>>} ELSE { <<o>> \o r : o \in Opts(p, i), r \in Choices(p, i + 1) }

PickFilled ==
  \E ch \in Choices(pat, 1) :
     /\ LET s == Concat([i \in 1..Len(pat) |-> ch[i].v])
            isFill == \A i \in 1..Len(pat) : ch[i].f
            PS == {i \in 1..Len(pat) : pat[i].k = "p"}
            th == IF ~isFill THEN <<>> ELSE
                  [q \in 1..Cardinality(PS) |-> ch[CHOOSE i \in PS : Cardinality({r \in PS : r <= i}) = q].v]
        IN /\ OkPath(s)
           /\ path' = s
           /\ fill' = [is |-> isFill, th |-> th]
           /\ \E c \in CfgsFor(s, pat) : cfg' = c

PickShort ==
  \E s \in ShortPaths :
     /\ OkPath(s) /\ path' = s /\ fill' = [is |-> FALSE, th |-> <<>>]
     /\ \E c \in CfgsFor(s, pat) : cfg' = c

Next == stage = 0 /\ stage' = 1 /\ UNCHANGED pat /\ (PickFilled \/ PickShort)
Spec == Init /\ [][Next]_vars

\* a legal filling: named and '+' values non-empty unless optional, named values '/'-free, constraints hold
Legal(p, th) ==
  LET PS == {i \in 1..Len(p) : p[i].k = "p"}
      idx(i) == Cardinality({q \in PS : q <= i})
  IN \A i \in PS : LET v == th[idx(i)] IN
        /\ (v # <<>> \/ p[i].opt)
        /\ (p[i].gr \/ ~HasChar(v, "/"))
        /\ (v = <<>> \/ Sat(p[i].con, v))

\* the value tuple of the filling, decoded as the server will see it
FillTheta == [q \in 1..Len(fill.th) |-> Decode(fill.th[q], cfg.unesc)]

Rec == LET must == AllMust(pat, path, cfg)
           th == FillTheta
           \* without StrictRouting a value ending in '/' is indistinguishable from an ignored trailing slash
           trailOK == cfg.strict \/ \A q \in 1..Len(th) : th[q] = <<>> \/ th[q][Len(th[q])] # "/"
           \* occurrences are counted on what the matcher compares: case-folded unless CaseSensitive
           fpat == IF cfg.cs THEN NormPat(pat, cfg) ELSE [i \in 1..Len(NormPat(pat, cfg)) |-> [NormPat(pat, cfg)[i] EXCEPT !.s = IF @ = <<>> THEN @ ELSE Lower(@)]]
           fth == IF cfg.cs THEN th ELSE [q \in 1..Len(th) |-> Lower(th[q])]
           pre == fill.is /\ Delimited(pat) /\ Legal(pat, th) /\ trailOK /\ NoExtra(fpat, fth)
       IN [ pat |-> [i \in 1..Len(pat) |-> pat[i].txt],
            path |-> path, cfg |-> cfg,
            may |-> AllMay(pat, path, cfg), must |-> must, use |-> AllUse(pat, path, cfg),
            isfill |-> fill.is, theta |-> th, delim |-> Delimited(pat),
            pre |-> pre,
            \* lemma of the specification itself: under C03's precondition the filling is a match
            lemma |-> (~pre \/ th \in must) ]

Emit == stage = 1 => PrintT(<<"CASE", ToJson(Rec)>>)
\* the lemma is also an invariant of the generator: a counterexample is a flaw in the reference semantics
Lemma == stage = 1 => LET r == Rec IN r.lemma
=============================================================================
