SPECIFICATION Spec
CONSTANTS
  Procs = {1, 2, 3}
  Rounds = 2
  MaxObj = 6
INVARIANT Mutex
INVARIANT UnlockOwn
INVARIANT NoLeak
INVARIANT NoDeleteWhileWaiting
