------------------------------- MODULE Cache -------------------------------
(***************************************************************************
 C14 -- the cache middleware at the grain of its storage calls and critical sections
 (external storage: a metadata record k and a body record k_body; MaxBytes accounting
 through an expiry heap).  One action per gate or internal step, in code order:

   Fetch (storage get k) . LockA . Decide .
        expired:  DelMeta . DelBody . HeapRemove . UnlockA . Handler ...
        hit:      GetBody . Serve(+unlock) . done
        miss:     UnlockA . Handler . [not cacheable: done] LockB .
                  { EvictPick . EvDelMeta . EvDelBody }* . HeapPut . SetBody . SetMeta . UnlockB . done

 FetchUnderLock = TRUE is the code as repaired (the entry is read inside the critical section);
 FALSE is the original order (read first, lock afterwards), kept as the mutant that must fail.
 ***************************************************************************)
EXTENDS Integers, Sequences, FiniteSets, TLC

CONSTANTS Procs, Keys, Bodies,      \* Bodies: body texts; Size(b) their length in bytes
          MaxBytes, Exp, MaxClock, FetchUnderLock,
          AnyIdx                     \* see HeapPut
Size(b) == CASE b = "s" -> 1 [] b = "mm" -> 2 [] b = "llllll" -> 6 [] b = "xxxxxxxxxxxx" -> 12 [] OTHER -> 3

VARIABLES clock, meta, body, heap, stored, mutex, pc, loc, out, last, corrupt
vars == <<clock, meta, body, heap, stored, mutex, pc, loc, out, last, corrupt>>

NilM == [status |-> 0, exp |-> 0, hidx |-> -1, dl |-> 0]
NilB == [val |-> "", dl |-> 0]
NoLoc == [key |-> "", nocache |-> FALSE, nostore |-> FALSE, inval |-> FALSE, rbody |-> "", rstatus |-> 0, e |-> NilM, b |-> "", ts |-> 0, ek |-> "", hidx |-> -1]
LiveM(k) == IF meta[k].dl # 0 /\ meta[k].dl > clock THEN meta[k] ELSE NilM
LiveB(k) == IF body[k].dl # 0 /\ body[k].dl > clock THEN body[k].val ELSE ""
Cacheable(st) == st \in {200, 203, 204, 206, 300, 301, 404, 405, 410, 414, 418, 501}

Init == /\ clock = 0 /\ meta = [k \in Keys |-> NilM] /\ body = [k \in Keys |-> NilB]
        /\ heap = {} /\ stored = 0 /\ mutex = 0
        /\ pc = [p \in Procs |-> "idle"] /\ loc = [p \in Procs |-> NoLoc]
        /\ out = [p \in Procs |-> [status |-> 0, body |-> "", x |-> "", good |-> TRUE]]
        /\ last = [k \in Keys |-> [status |-> 0, body |-> ""]]      \* ghost: what was last stored for k
        /\ corrupt = FALSE

U(p, new) == pc' = [pc EXCEPT ![p] = new]

\* nc: Cache-Control: no-cache, ns: no-store (bypasses the middleware entirely), iv: the CacheInvalidator callback says yes
Start(p, k, nc, ns, iv, rb, rs) ==
  /\ pc[p] = "idle" /\ U(p, IF ns THEN "bypass" ELSE IF FetchUnderLock THEN "lockA" ELSE "fetch")
  /\ loc' = [loc EXCEPT ![p] = [NoLoc EXCEPT !.key = k, !.nocache = nc, !.nostore = ns, !.inval = iv, !.rbody = rb, !.rstatus = rs]]
  /\ UNCHANGED <<clock, meta, body, heap, stored, mutex, out, last, corrupt>>

Fetch(p) == /\ pc[p] = "fetch" /\ loc' = [loc EXCEPT ![p].e = LiveM(loc[p].key)]
            /\ U(p, IF FetchUnderLock THEN "decide" ELSE "lockA")
            /\ UNCHANGED <<clock, meta, body, heap, stored, mutex, out, last, corrupt>>

LockA(p) == /\ pc[p] = "lockA" /\ mutex = 0 /\ mutex' = p
            /\ loc' = [loc EXCEPT ![p].ts = clock]
            /\ U(p, IF FetchUnderLock THEN "fetch" ELSE "decide")
            /\ UNCHANGED <<clock, meta, body, heap, stored, out, last, corrupt>>

Bypass(p) == /\ pc[p] = "bypass" /\ U(p, "done")
             /\ out' = [out EXCEPT ![p] = [status |-> loc[p].rstatus, body |-> loc[p].rbody, x |-> "", good |-> TRUE]]
             /\ UNCHANGED <<clock, meta, body, heap, stored, mutex, loc, last, corrupt>>

Decide(p) == /\ pc[p] = "decide"
             /\ LET e == loc[p].e IN
                U(p, IF e.exp # 0 /\ (loc[p].ts >= e.exp \/ loc[p].inval) THEN "delmeta"
                     ELSE IF e.exp # 0 /\ ~loc[p].nocache THEN "getbody" ELSE "unlockA")
             /\ UNCHANGED <<clock, meta, body, heap, stored, mutex, loc, out, last, corrupt>>

DelMeta(p) == /\ pc[p] = "delmeta" /\ meta' = [meta EXCEPT ![loc[p].key] = NilM] /\ U(p, "delbody")
              /\ UNCHANGED <<clock, body, heap, stored, mutex, loc, out, last, corrupt>>
DelBody(p) == /\ pc[p] = "delbody" /\ body' = [body EXCEPT ![loc[p].key] = NilB]
              /\ U(p, IF MaxBytes > 0 THEN "heaprm" ELSE "unlockA")
              /\ UNCHANGED <<clock, meta, heap, stored, mutex, loc, out, last, corrupt>>
\* heap.remove(e.heapidx): removing an index that is not in the heap is the corruption (panic / wrong entry) of the original code
HeapRemove(p) == /\ pc[p] = "heaprm"
                 /\ LET H == {h \in heap : h.idx = loc[p].e.hidx} IN
                    IF H = {} THEN corrupt' = TRUE /\ UNCHANGED <<heap, stored>>
                    ELSE LET h == CHOOSE x \in H : TRUE IN heap' = heap \ {h} /\ stored' = stored - h.bytes /\ UNCHANGED corrupt
                 /\ U(p, "unlockA")
                 /\ UNCHANGED <<clock, meta, body, mutex, loc, out, last>>

GetBody(p) == /\ pc[p] = "getbody" /\ loc' = [loc EXCEPT ![p].b = LiveB(loc[p].key)] /\ U(p, "serve")
              /\ UNCHANGED <<clock, meta, body, heap, stored, mutex, out, last, corrupt>>
Serve(p) == /\ pc[p] = "serve" /\ mutex' = 0
            \* ghost `good`: at the moment it is served, the hit is exactly what was last stored for the key, fresh, and not a no-cache request
            /\ out' = [out EXCEPT ![p] = [status |-> loc[p].e.status, body |-> loc[p].b, x |-> "hit",
                                           good |-> /\ loc[p].b = last[loc[p].key].body /\ loc[p].e.status = last[loc[p].key].status
                                                    /\ loc[p].ts < loc[p].e.exp /\ ~loc[p].nocache /\ ~loc[p].inval /\ ~loc[p].nostore]]
            /\ U(p, "done")
            /\ UNCHANGED <<clock, meta, body, heap, stored, loc, last, corrupt>>

UnlockA(p) == /\ pc[p] = "unlockA" /\ mutex' = 0 /\ U(p, "handler")
              /\ UNCHANGED <<clock, meta, body, heap, stored, loc, out, last, corrupt>>

Handler(p) == /\ pc[p] = "handler"
              /\ IF Cacheable(loc[p].rstatus)
                 THEN U(p, "lockB") /\ UNCHANGED out
                 ELSE U(p, "done") /\ out' = [out EXCEPT ![p] = [status |-> loc[p].rstatus, body |-> loc[p].rbody, x |-> "unreachable", good |-> TRUE]]
              /\ UNCHANGED <<clock, meta, body, heap, stored, mutex, loc, last, corrupt>>

LockB(p) == /\ pc[p] = "lockB" /\ mutex = 0 /\ mutex' = p /\ U(p, "evict")
            /\ UNCHANGED <<clock, meta, body, heap, stored, loc, out, last, corrupt>>

Need(p) == Size(loc[p].rbody)
\* evict loop / size check / store decision
Evict(p) ==
  /\ pc[p] = "evict"
  /\ IF MaxBytes > 0 /\ Need(p) > MaxBytes THEN
        /\ U(p, "done") /\ mutex' = 0
        /\ out' = [out EXCEPT ![p] = [status |-> loc[p].rstatus, body |-> loc[p].rbody, x |-> "unreachable", good |-> TRUE]]
        /\ UNCHANGED <<heap, stored, loc, corrupt>>
     ELSE IF MaxBytes > 0 /\ stored + Need(p) > MaxBytes THEN
        IF heap = {} THEN corrupt' = TRUE /\ U(p, "done") /\ mutex' = 0 /\ UNCHANGED <<heap, stored, loc, out>>   \* removeFirst on an empty heap
        ELSE \E h \in heap : /\ \A g \in heap : h.exp <= g.exp
                             /\ heap' = heap \ {h} /\ stored' = stored - h.bytes
                             /\ loc' = [loc EXCEPT ![p].ek = h.key]
                             /\ U(p, "evdelmeta") /\ UNCHANGED <<mutex, out, corrupt>>
     ELSE /\ U(p, IF MaxBytes > 0 THEN "heapput" ELSE "setbody") /\ UNCHANGED <<heap, stored, mutex, loc, out, corrupt>>
  /\ UNCHANGED <<clock, meta, body, last>>
EvDelMeta(p) == /\ pc[p] = "evdelmeta" /\ meta' = [meta EXCEPT ![loc[p].ek] = NilM] /\ U(p, "evdelbody")
                /\ UNCHANGED <<clock, body, heap, stored, mutex, loc, out, last, corrupt>>
EvDelBody(p) == /\ pc[p] = "evdelbody" /\ body' = [body EXCEPT ![loc[p].ek] = NilB] /\ U(p, "evict")
                /\ UNCHANGED <<clock, meta, heap, stored, mutex, loc, out, last, corrupt>>

UsedIdx == {h.idx : h \in heap}
HeapPut(p) == /\ pc[p] = "heapput"
              \* the tracking index is an internal name: any index that is not in use (the code re-uses the indices of
              \* removed entries in its own order).  AnyIdx = FALSE picks the smallest one:
              \* a symmetry reduction for the design check, where the name cannot matter; trace validation uses TRUE
              \* (a no-cache refresh leaves the superseded entry of its key in the heap until it is evicted, so the heap can hold more
              \* entries than there are keys: the range grows with the heap and the step is never disabled)
              /\ \E i \in 0..(Cardinality(heap) + (IF AnyIdx THEN Cardinality(Keys) + Cardinality(Procs) ELSE 0)) :
                    /\ i \notin UsedIdx /\ (AnyIdx \/ \A j \in 0..(i - 1) : j \in UsedIdx)
                    /\ heap' = heap \cup {[key |-> loc[p].key, exp |-> loc[p].ts + Exp, bytes |-> Need(p), idx |-> i]}
                    /\ loc' = [loc EXCEPT ![p].hidx = i]
              /\ stored' = stored + Need(p) /\ U(p, "setbody")
              /\ UNCHANGED <<clock, meta, body, mutex, out, last, corrupt>>
SetBody(p) == /\ pc[p] = "setbody" /\ body' = [body EXCEPT ![loc[p].key] = [val |-> loc[p].rbody, dl |-> clock + Exp]]
              /\ U(p, "setmeta")
              /\ UNCHANGED <<clock, meta, heap, stored, mutex, loc, out, last, corrupt>>
SetMeta(p) == /\ pc[p] = "setmeta"
              /\ meta' = [meta EXCEPT ![loc[p].key] = [status |-> loc[p].rstatus, exp |-> loc[p].ts + Exp, hidx |-> loc[p].hidx, dl |-> clock + Exp]]
              /\ last' = [last EXCEPT ![loc[p].key] = [status |-> loc[p].rstatus, body |-> loc[p].rbody]]
              /\ U(p, "unlockB")
              /\ UNCHANGED <<clock, body, heap, stored, mutex, loc, out, corrupt>>
UnlockB(p) == /\ pc[p] = "unlockB" /\ mutex' = 0 /\ U(p, "done")
              /\ out' = [out EXCEPT ![p] = [status |-> loc[p].rstatus, body |-> loc[p].rbody, x |-> "miss", good |-> TRUE]]
              /\ UNCHANGED <<clock, meta, body, heap, stored, loc, last, corrupt>>

\* modelling restriction: time does not pass while somebody is inside a critical section (the second-granular
\* clock the middleware reads cannot resolve it anyway; a TTL running out between the metadata read and the
\* body read of one hit is outside this model)
Tick(d) == /\ mutex = 0 /\ clock + d <= MaxClock /\ clock' = clock + d
           /\ UNCHANGED <<meta, body, heap, stored, mutex, pc, loc, out, last, corrupt>>
Reuse(p) == /\ pc[p] = "done" /\ U(p, "idle") /\ loc' = [loc EXCEPT ![p] = NoLoc]
            /\ out' = [out EXCEPT ![p] = [status |-> 0, body |-> "", x |-> "", good |-> TRUE]]
            /\ UNCHANGED <<clock, meta, body, heap, stored, mutex, last, corrupt>>

Step(p) == \/ Bypass(p) \/ Fetch(p) \/ LockA(p) \/ Decide(p) \/ DelMeta(p) \/ DelBody(p) \/ HeapRemove(p) \/ GetBody(p) \/ Serve(p)
           \/ UnlockA(p) \/ Handler(p) \/ LockB(p) \/ Evict(p) \/ EvDelMeta(p) \/ EvDelBody(p) \/ HeapPut(p)
           \/ SetBody(p) \/ SetMeta(p) \/ UnlockB(p)
Statuses == {200, 500}
Next == \/ \E p \in Procs : Step(p) \/ Reuse(p)
                            \/ \E k \in Keys, nc, ns, iv \in BOOLEAN, rb \in Bodies, rs \in Statuses : Start(p, k, nc, ns, iv, rb, rs)
        \/ \E d \in 1..Exp : Tick(d)
Spec == Init /\ [][Next]_vars

---------------------------------------------------------------------------
RECURSIVE SumBytes(_)
SumBytes(H) == IF H = {} THEN 0 ELSE LET h == CHOOSE x \in H : TRUE IN h.bytes + SumBytes(H \ {h})
NoCorruption == ~corrupt
Accounting == MaxBytes > 0 => stored = SumBytes(heap)
Bounded == MaxBytes > 0 => stored <= MaxBytes
HeldBytes == LET L == {k \in Keys : LiveB(k) # ""} IN
             IF L = {} THEN 0 ELSE LET RECURSIVE s(_) s(T) == IF T = {} THEN 0 ELSE LET k == CHOOSE x \in T : TRUE IN Size(LiveB(k)) + s(T \ {k}) IN s(L)
\* outside critical sections the bytes really held never exceed the budget
Quiet == mutex = 0
HeldBounded == (MaxBytes > 0 /\ Quiet) => HeldBytes <= MaxBytes
\* every live entry is tracked by a heap entry with its index
Tracked == (MaxBytes > 0 /\ Quiet) => \A k \in Keys : LiveM(k) # NilM => \E h \in heap : h.idx = LiveM(k).hidx /\ h.key = k
\* a hit serves exactly what was last stored for the key, and only while fresh
HitCorrect == \A p \in Procs : out[p].good
\* no interleaving wedges the middleware: somebody with work left can always take a step
NoStuck == (\E p \in Procs : pc[p] \notin {"idle", "done"}) => ENABLED (\E p \in Procs : Step(p))
MutexHolder == mutex # 0 => pc[mutex] \notin {"idle", "done", "handler", "lockA", "lockB"}
NeverStoreUncacheable == \A k \in Keys : ~Cacheable(500) => meta[k].status # 500
=============================================================================
