-------------------------------- MODULE Cors --------------------------------
(***************************************************************************
 C19 -- CORS: Access-Control-Allow-Origin only for permitted origins (exact entry, wildcard-
 subdomain entry matching on scheme, port and a dot-separated host suffix, or the allow
 function), echoing the origin in lower case, or "*" only when all origins are allowed;
 never "*" together with credentials; Vary: Origin whenever the answer depends on the
 origin; preflights answered 204 with the configured methods/headers, handler not reached.
 ***************************************************************************)
EXTENDS Integers, Sequences, FiniteSets, TLC, Json
CONSTANT Scope      \* "quick": fewer secondary options; "full": the whole product

O(s, h, p) == [scheme |-> s, host |-> h, port |-> p]
Hosts == {"example.com", "api.example.com", "a.b.example.com", "evilexample.com", "example.com.evil.net", "other.org"}
\* host is a proper sub-domain of base (dot-separated suffix)
Sub == {<<"api.example.com", "example.com">>, <<"a.b.example.com", "example.com">>}
Origins == {O(s, h, p) : s \in {"http", "https"}, h \in Hosts, p \in {"", "8080"}}
NoOrigin == O("", "", "")
NullOrigin == O("null", "", "")

ExactPool == {O("https", "example.com", ""), O("http", "example.com", "8080"), O("https", "api.example.com", "")}
WildPool == {O("https", "example.com", ""), O("https", "example.com", "8080")}   \* scheme://*.host[:port]
FuncOrigin == O("https", "other.org", "")
\* how the configuration WRITES its list entries: as serialized, with a trailing slash, in upper case, or with blanks around.
\* The constructor normalises all four to the same policy, so the answer does not depend on it.
Spellings == {"plain", "slash", "upper", "space"}

Cfg == IF Scope = "full"
       THEN {c \in [exact : SUBSET ExactPool, wild : SUBSET WildPool, fn : BOOLEAN, all : BOOLEAN, blank : BOOLEAN,
             cred : BOOLEAN, pna : BOOLEAN, maxAge : {0, 600, -1}, hdrs : BOOLEAN, expose : BOOLEAN, spell : Spellings] :
                     \* the secondary options are multiplied with the plain spelling only (measured: the full product is 5.9 M cases)
                     /\ (c.spell # "plain" => ~c.pna /\ ~c.expose /\ c.maxAge = 600)
                     /\ (c.maxAge = -1 => ~c.cred)}
       ELSE {c \in [exact : SUBSET {O("https", "example.com", ""), O("http", "example.com", "8080")}, wild : SUBSET WildPool, fn : BOOLEAN, all : BOOLEAN, blank : BOOLEAN,
                     cred : BOOLEAN, pna : BOOLEAN, maxAge : {600, -1}, hdrs : BOOLEAN, expose : BOOLEAN, spell : Spellings] :
                     c.pna = c.hdrs /\ c.expose = c.fn /\ (c.maxAge = -1 => c.spell = "plain" /\ ~c.cred)}
Req == [method : {"GET", "POST", "OPTIONS"}, origin : Origins \cup {NoOrigin, NullOrigin}, acrm : BOOLEAN, acrh : BOOLEAN, pna : BOOLEAN, upper : BOOLEAN]

VARIABLES cfg, req, stage
vars == <<cfg, req, stage>>

\* the constructor must refuse "*" together with credentials
Invalid(c) == c.all /\ c.cred
Allowed(c, o) == \/ c.all
                 \/ o \in c.exact
                 \/ \E w \in c.wild : o.scheme = w.scheme /\ o.port = w.port /\ <<o.host, w.host>> \in Sub
                 \/ (c.fn /\ o = FuncOrigin)
HasOrigin(r) == r.origin # NoOrigin
Preflight(r) == r.method = "OPTIONS" /\ HasOrigin(r) /\ r.acrm
\* OPTIONS with an Origin but without Access-Control-Request-Method is not a CORS request: passed on untouched
Plain(r) == ~HasOrigin(r) \/ (r.method = "OPTIONS" /\ ~r.acrm)

Answer(c, r) ==
  LET ok == ~Plain(r) /\ r.origin # NullOrigin /\ Allowed(c, r.origin)
      okNull == ~Plain(r) /\ r.origin = NullOrigin /\ c.all
      acao == IF ok \/ okNull THEN (IF c.all THEN "*" ELSE "origin") ELSE ""       \* "origin" = the request's origin, lower-cased
  IN [ panic |-> Invalid(c),
       acao |-> acao,
       acac |-> (acao = "origin" /\ c.cred),
       varyOrigin |-> IF c.all /\ ~(r.method = "OPTIONS" /\ HasOrigin(r)) THEN "any" ELSE "yes",   \* must be present unless nothing depends on the origin
       status |-> IF Preflight(r) THEN 204 ELSE 200,
       handler |-> ~Preflight(r),
       acam |-> Preflight(r),
       acah |-> IF ~Preflight(r) THEN "" ELSE IF c.hdrs THEN "configured" ELSE IF r.acrh THEN "echo" ELSE "",
       apn |-> Preflight(r) /\ c.pna /\ r.pna,
       maxAge |-> IF Plain(r) THEN 0 ELSE c.maxAge,      \* > 0: that number of seconds; < 0: the header says 0 (do not cache); 0: no header
       expose |-> ~Plain(r) /\ c.expose ]

Init == stage = 0 /\ cfg \in Cfg /\ req = [method |-> "GET", origin |-> NoOrigin, acrm |-> FALSE, acrh |-> FALSE, pna |-> FALSE, upper |-> FALSE]
\* a configuration without any origin source means "all"
\* (blank: the origin list is SET but names nothing -- entries that are empty or blanks, as a split of an empty setting yields.
\* That is not "no origin source": the constructor may refuse it, and if it does not, nothing is permitted.)
WellFormed(c) == /\ (c.all => c.exact = {} /\ c.wild = {} /\ ~c.fn)
                 /\ (~c.all => (c.exact # {} \/ c.wild # {} \/ c.fn \/ c.blank))
                 /\ (c.blank => c.exact = {} /\ c.wild = {} /\ ~c.fn /\ ~c.all)
                 /\ (c.exact = {} /\ c.wild = {} => c.spell = "plain")       \* nothing to spell
Next == /\ stage = 0 /\ WellFormed(cfg) /\ stage' = 1 /\ UNCHANGED cfg
        /\ \E r \in Req : /\ (r.method # "OPTIONS" => ~r.acrm /\ ~r.acrh /\ ~r.pna)
                          /\ (~HasOrigin(r) => ~r.upper)
                          /\ (Scope = "quick" => (r.pna = r.acrh /\ (r.upper => r.origin.port = "")))
                          /\ req' = r
Spec == Init /\ [][Next]_vars

\* properties of the decision function itself
NeverStarWithCredentials == stage = 1 => LET a == Answer(cfg, req) IN ~(a.acao = "*" /\ a.acac)
AcaoOnlyIfAllowed == stage = 1 => LET a == Answer(cfg, req) IN a.acao # "" => (cfg.all \/ Allowed(cfg, req.origin))
LookAlikesRefused == (stage = 1 /\ req.origin.host \in {"evilexample.com", "example.com.evil.net"} /\ ~cfg.all) => Answer(cfg, req).acao = ""
\* the spelling of the configuration's entries is not an input of the decision
SpellingIrrelevant == stage = 1 => \A sp \in Spellings : Answer([cfg EXCEPT !.spell = sp], req) = Answer(cfg, req)
\* a method other than OPTIONS is never answered as a preflight: the handler runs
OnlyOptionsIsPreflight == stage = 1 /\ req.method # "OPTIONS" => LET a == Answer(cfg, req) IN a.handler /\ a.status = 200 /\ ~a.acam /\ a.acah = ""
Emit == stage = 1 => PrintT(<<"CASE", ToJson([cfg |-> cfg, req |-> req, ans |-> Answer(cfg, req)])>>)
=============================================================================
