SPECIFICATION Spec
CONSTANTS
  Idle = 5
  Abs = 9
  Vals = {"va"}
  HistDepth = 40
  MaxIds = 30
  Ops = {"begin", "set", "save", "getbyid", "byidsave", "freeticks"}
  Modes = {"store"}
INVARIANT EmitHist
INVARIANT NeverAdoptForeignId
INVARIANT FreshMeansNew
