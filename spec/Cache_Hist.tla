---- MODULE Cache_Hist ----
(* Forward conformance for C14: sequential timed histories simulated from Cache.tla *)
EXTENDS Cache, Json
CONSTANT HistDepth
\* ---- history generation: one worker, time passes only between requests
VARIABLES hist, amb
\* an eviction has to choose among several entries with the same expiry: which one goes is not determined by the
\* specification (it depends on the heap's internal order), so what the history prescribes afterwards is one of several
\* legal outcomes; the replay stops comparing there
TieEvict == \E p \in Procs : /\ pc[p] = "evict" /\ MaxBytes > 0 /\ Need(p) <= MaxBytes /\ stored + Need(p) > MaxBytes
                               /\ Cardinality({h \in heap : \A g \in heap : h.exp <= g.exp}) > 1
HInit == Init /\ hist = <<>> /\ amb = FALSE
HStart(p) == \E k \in Keys, nc, ns, iv \in BOOLEAN, rb \in Bodies, rs \in {200, 404, 500} :
               /\ Start(p, k, nc, ns, iv, rb, rs)
               /\ hist' = Append(hist, [ev |-> "req", key |-> k, nc |-> nc, ns |-> ns, iv |-> iv, rb |-> rb, rs |-> rs, d |-> 0,
                                         status |-> 0, body |-> "", x |-> "", amb |-> FALSE])
HDone(p) == /\ pc[p] = "done" /\ Reuse(p)
            /\ hist' = [hist EXCEPT ![Len(hist)] = [@ EXCEPT !.status = out[p].status, !.body = out[p].body, !.x = out[p].x, !.amb = amb]]
HTick == /\ \A p \in Procs : pc[p] = "idle"
         /\ \E d \in 1..(Exp + 1) : Tick(d) /\ hist' = Append(hist, [ev |-> "tick", key |-> "", nc |-> FALSE, ns |-> FALSE, iv |-> FALSE,
                                                   rb |-> "", rs |-> 0, d |-> d, status |-> 0, body |-> "", x |-> "", amb |-> FALSE])
HNext == /\ \/ \E p \in Procs : (Step(p) /\ UNCHANGED hist) \/ HStart(p) \/ HDone(p)
            \/ HTick
         /\ amb' = (amb \/ TieEvict)
HSpec == HInit /\ [][HNext]_<<vars, hist, amb>>
EmitHist == (TLCGet("level") = HistDepth) => PrintT(<<"HIST", ToJson([hist |-> hist])>>)
====
