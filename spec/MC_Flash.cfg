SPECIFICATION Spec
CONSTANTS
  KeyClasses = {"plain", "special", "unicode", "pct"}
  ValClasses = {"plain", "special", "unicode", "empty", "long", "pct"}
  Levels = {0, 65, 200}
  MaxMsgs = 2
  Faults = {"none", "double"}
  HostileKinds = {"truncated", "announce32", "announce16", "missingfields", "wrongtypes", "trailing", "notmsgpack", "empty"}
INVARIANT Emit
INVARIANT DeliveredOnce
