SPECIFICATION Spec
CONSTANTS
  Scope = "quick"
INVARIANT Emit
INVARIANT ZeroNeverSelects
INVARIANT AbsentSelectsFirst
