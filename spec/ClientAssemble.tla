--------------------------- MODULE ClientAssemble ---------------------------
(***************************************************************************
 C18 (request assembly) -- what arrives at the server as a function of what was configured
 on the client and on the request: request-level user agent, referer, cookies and path
 parameters take precedence over client-level ones; request-level headers and query
 parameters are sent in addition to client-level ones; the result is a deterministic
 function of the configuration.
 ***************************************************************************)
EXTENDS Naturals, Sequences, FiniteSets, TLC, Json
CONSTANTS Vals        \* value classes: "plain", "esc" (needs escaping), "empty"; "none" = not configured
VARIABLES cfg, stage
vars == <<cfg, stage>>
Opt == Vals \cup {"none"}
Comps == {"header", "query", "cookie", "ua", "referer", "param"}
\* the timeout is a precedence component too (value classes: "plain" = long, "esc" = short); it is varied on its own, and what
\* arrives is observed on a slow endpoint: a request whose effective timeout is absent or long is answered, and so is the next
\* request of a client that configured none -- a timeout never outlives the request it was set on
TimeoutLvl == [client : {"none", "plain", "esc"}, request : {"none", "plain", "esc"}]
\* the request may also carry a context of its own: without a deadline, with a deadline later than any timeout, or with one that
\* passes before the reply can arrive.  A later deadline does not extend the timeout; whichever ends first cuts the request off.
CtxKinds == {"none", "later", "sooner"}
Lvl == [client : Opt, request : Opt]
\* precedence components: the request-level value if configured, else the client-level one, else nothing
Prec(l) == IF l.request # "none" THEN <<[lvl |-> "request", v |-> l.request]>>
           ELSE IF l.client # "none" THEN <<[lvl |-> "client", v |-> l.client]>> ELSE <<>>
\* additive components: both are sent
Both(l) == (IF l.client # "none" THEN <<[lvl |-> "client", v |-> l.client]>> ELSE <<>>)
           \o (IF l.request # "none" THEN <<[lvl |-> "request", v |-> l.request]>> ELSE <<>>)
Arrives(c) == [header |-> Both(c.header), query |-> Both(c.query), cookie |-> Prec(c.cookie),
               ua |-> Prec(c.ua), referer |-> Prec(c.referer), param |-> Prec(c.param), timeout |-> Prec(c.timeout)]
Cut(c) == \/ c.ctx.request = "sooner"
          \/ (Prec(c.timeout) # <<>> /\ Prec(c.timeout)[1].v = "esc")
Default == [client |-> "none", request |-> "none"]
AllDefault == [k \in Comps \cup {"timeout", "ctx"} |-> Default]
\* exhaustive in each component (and in each pair of components), the others unconfigured
Init == /\ stage = 0
        /\ cfg \in {[AllDefault EXCEPT ![k1] = l1, ![k2] = l2] : k1 \in Comps, k2 \in Comps, l1 \in Lvl, l2 \in Lvl}
                  \cup {[AllDefault EXCEPT !["timeout"] = l, !["ctx"] = [client |-> "none", request |-> x],
                                            !["param"] = [client |-> "none", request |-> "plain"]] : l \in TimeoutLvl, x \in CtxKinds}
Next == stage = 0 /\ stage' = 1 /\ UNCHANGED cfg
Spec == Init /\ [][Next]_vars
Emit == stage = 1 => PrintT(<<"CASE", ToJson([cfg |-> cfg, arrives |-> Arrives(cfg), cut |-> Cut(cfg)])>>)
\* the path parameter must be configured somewhere for the URL template to be complete: the harness skips the rest
=============================================================================
