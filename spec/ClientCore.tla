----------------------------- MODULE ClientCore -----------------------------
(***************************************************************************
 C18 (client core) -- the completion / timeout hand-off of client.execFunc over pooled
 response objects and pooled completion channels.  Per request: a caller and a worker
 share the flag `done`; the worker CASes it before it copies the answer into the
 response object and sends on the channel, the caller either receives or gives up
 (timeout / cancel).  Pools are modelled as ownership: an object released by one request
 may be acquired by another.

 Compete = TRUE : the caller's give-up branch competes for the flag (CAS) and, if it loses,
                  waits for the worker's send -- the code as repaired.
 Compete = FALSE: the original code: the caller sets the flag unconditionally and releases
                  the response even when the worker has already won the CAS.
 ***************************************************************************)
EXTENDS Naturals, Sequences, FiniteSets, TLC, Json
CONSTANTS Reqs, Objs, Chans, Compete
VARIABLES cpc, wpc, done, myResp, myChan, respOwner, respContent, chanOwner, chanBuf, result, acts
vars == <<cpc, wpc, done, myResp, myChan, respOwner, respContent, chanOwner, chanBuf, result, acts>>

NoRes == [kind |-> "", from |-> 0, content |-> 0]
Init == /\ cpc = [r \in Reqs |-> "new"] /\ wpc = [r \in Reqs |-> "idle"] /\ done = [r \in Reqs |-> 0]
        /\ myResp = [r \in Reqs |-> 0] /\ myChan = [r \in Reqs |-> 0]
        /\ respOwner = [o \in Objs |-> 0] /\ respContent = [o \in Objs |-> 0]
        /\ chanOwner = [c \in Chans |-> 0] /\ chanBuf = [c \in Chans |-> <<>>]
        /\ result = [r \in Reqs |-> NoRes] /\ acts = <<>>
A(name, r) == acts' = Append(acts, [a |-> name, r |-> r])

\* caller: AcquireResponse + acquireErrChan (any free pooled object), start the worker, send the request
Acquire(r) == /\ cpc[r] = "new"
              /\ \E o \in Objs, c \in Chans :
                    /\ respOwner[o] = 0 /\ chanOwner[c] = 0
                    /\ \A o2 \in Objs : respOwner[o2] = 0 => o <= o2        \* pools hand out deterministically in the model
                    /\ \A c2 \in Chans : chanOwner[c2] = 0 => c <= c2
                    /\ respOwner' = [respOwner EXCEPT ![o] = r] /\ respContent' = [respContent EXCEPT ![o] = 0]
                    /\ chanOwner' = [chanOwner EXCEPT ![c] = r]
                    /\ myResp' = [myResp EXCEPT ![r] = o] /\ myChan' = [myChan EXCEPT ![r] = c]
              /\ cpc' = [cpc EXCEPT ![r] = "wait"] /\ wpc' = [wpc EXCEPT ![r] = "do"]
              /\ A("acquire", r) /\ UNCHANGED <<done, chanBuf, result>>
\* worker: the answer arrived; CAS(done, 0, 1)
WorkerCAS(r) == /\ wpc[r] = "do"
                /\ IF done[r] = 0 THEN done' = [done EXCEPT ![r] = 1] /\ wpc' = [wpc EXCEPT ![r] = "copy"]
                                  ELSE UNCHANGED done /\ wpc' = [wpc EXCEPT ![r] = "end"]
                /\ A("answer", r) /\ UNCHANGED <<cpc, myResp, myChan, respOwner, respContent, chanOwner, chanBuf, result>>
\* worker: copy into the response object, send on the channel (one gate in the code: after the CAS)
WorkerDeliver(r) == /\ wpc[r] = "copy" /\ Len(chanBuf[myChan[r]]) = 0
                    /\ respContent' = [respContent EXCEPT ![myResp[r]] = r]
                    /\ chanBuf' = [chanBuf EXCEPT ![myChan[r]] = <<r>>] /\ wpc' = [wpc EXCEPT ![r] = "end"]
                    /\ A("deliver", r) /\ UNCHANGED <<cpc, done, myResp, myChan, respOwner, chanOwner, result>>
\* caller: receives the completion -> returns the response (the channel goes back to its pool)
CallerRecv(r) == /\ cpc[r] \in {"wait", "waitworker"} /\ Len(chanBuf[myChan[r]]) = 1
                 /\ result' = [result EXCEPT ![r] = [kind |-> "resp", from |-> Head(chanBuf[myChan[r]]), content |-> respContent[myResp[r]]]]
                 /\ chanBuf' = [chanBuf EXCEPT ![myChan[r]] = <<>>] /\ chanOwner' = [chanOwner EXCEPT ![myChan[r]] = 0]
                 /\ cpc' = [cpc EXCEPT ![r] = "returned"]
                 /\ A("recv", r) /\ UNCHANGED <<wpc, done, myResp, myChan, respOwner, respContent>>
\* caller: the context is cancelled / timed out
CallerGiveUp(r) ==
  /\ cpc[r] = "wait" /\ Len(chanBuf[myChan[r]]) = 0      \* (with a completion already buffered Go's select may take either; not modelled)
  /\ IF Compete /\ done[r] = 1
     THEN \* lost the race for the flag: the worker is committed, wait for it
          /\ cpc' = [cpc EXCEPT ![r] = "waitworker"]
          /\ UNCHANGED <<done, respOwner, respContent, chanOwner, result>>
     ELSE /\ done' = [done EXCEPT ![r] = 1]
          /\ respOwner' = [respOwner EXCEPT ![myResp[r]] = 0] /\ respContent' = [respContent EXCEPT ![myResp[r]] = 0]
          /\ chanOwner' = [chanOwner EXCEPT ![myChan[r]] = 0]
          /\ result' = [result EXCEPT ![r] = [kind |-> "timeout", from |-> 0, content |-> 0]]
          /\ cpc' = [cpc EXCEPT ![r] = "returned"]
  /\ A("cancel", r) /\ UNCHANGED <<wpc, myResp, myChan, chanBuf>>
\* user closes a returned response -> back to the pool
CloseResp(r) == /\ cpc[r] = "returned" /\ result[r].kind = "resp" /\ respOwner[myResp[r]] = r
                /\ respOwner' = [respOwner EXCEPT ![myResp[r]] = 0] /\ respContent' = [respContent EXCEPT ![myResp[r]] = 0]
                /\ cpc' = [cpc EXCEPT ![r] = "closed"]
                /\ A("close", r) /\ UNCHANGED <<wpc, done, myResp, myChan, chanOwner, chanBuf, result>>
Next == \E r \in Reqs : Acquire(r) \/ WorkerCAS(r) \/ WorkerDeliver(r) \/ CallerRecv(r) \/ CallerGiveUp(r) \/ CloseResp(r)
Spec == Init /\ [][Next]_vars

\* ownership: a worker only writes / sends into objects its own request still owns
WriteOwn == \A r \in Reqs : wpc[r] = "copy" => respOwner[myResp[r]] = r
SendOwn  == \A r \in Reqs : wpc[r] = "copy" => chanOwner[myChan[r]] = r
\* every response handed back belongs to the request it is returned for, and stays that way while it is held
Belongs  == \A r \in Reqs : (result[r].kind = "resp" /\ cpc[r] = "returned") =>
               result[r].from = r /\ result[r].content = r /\ respContent[myResp[r]] = r
AllQuiet == \A r \in Reqs : cpc[r] \in {"returned", "closed"} /\ wpc[r] \in {"end"}
Emit == AllQuiet => PrintT(<<"CASE", ToJson([acts |-> acts, result |-> [r \in Reqs |-> result[r]]])>>)
View == <<cpc, wpc, done, myResp, myChan, respOwner, respContent, chanOwner, chanBuf, result>>
=============================================================================
