SPECIFICATION Spec
CONSTANTS
  Scope = "quick"
INVARIANT Emit
INVARIANT NeverStarWithCredentials
INVARIANT AcaoOnlyIfAllowed
INVARIANT LookAlikesRefused
INVARIANT SpellingIrrelevant
INVARIANT OnlyOptionsIsPreflight
