SPECIFICATION Spec
CONSTANTS
  Keys = {"a", "b"}
  MaxClock = 4
  TTLs = {0, 1, 2}
  Recheck = FALSE
PROPERTY GcInvisible
PROPERTY SweepCollects
