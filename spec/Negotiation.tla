----------------------------- MODULE Negotiation -----------------------------
(***************************************************************************
 C09 -- content negotiation: the result is the first offer acceptable to the most
 preferred range of the request header; ranges are ordered by descending quality, then
 specificity, then number of parameters, then position; ranges with q = 0 select nothing;
 every parameter of a range must be present in the offer; no header selects the first offer.
 ***************************************************************************)
EXTENDS Naturals, Sequences, FiniteSets, TLC, Json
CONSTANTS MaxRanges, MaxOffers,   \* bounds for media-type negotiation
          QSet, PSets,           \* q-values (in thousandths) and parameter sets of the range pool
          TokMaxRanges           \* bound for token-list headers
R(t, s, q, ps) == [type |-> t, sub |-> s, q |-> q, params |-> ps]
Of(t, s, ps, ext) == [type |-> t, sub |-> s, params |-> ps, ext |-> ext]   \* ext # "": the offer is spelled as a file extension

P1 == {<<"a", "1">>}
P2 == {<<"a", "1">>, <<"b", "2">>}
PSmall == {{}, P1}
PFull == {{}, P1, P2}
Qs == QSet
Pss == PSets
Shapes == {<<"*", "*">>, <<"text", "*">>, <<"text", "html">>, <<"text", "plain">>, <<"application", "json">>}
Ranges == {R(sh[1], sh[2], q, ps) : sh \in Shapes, q \in Qs, ps \in Pss}
OfferPool == {Of("text", "html", {}, ""), Of("text", "plain", {}, ""), Of("application", "json", {}, ""), Of("text", "html", P1, ""),
              Of("text", "html", P2, ""), Of("text", "html", {}, "html"), Of("application", "json", {}, "json")}
\* token lists (Accept-Charset / -Encoding / -Language): a range is a token or "*", an offer is a token; they are written as
\* media ranges with an empty subtype so that the same order and the same selection function decide them.  The three tokens
\* are pairwise no prefixes of each other (the harness maps them to utf-16/iso-8859-1/us-ascii, gzip/br/deflate, en/de/fr).
\* "t1x" is a fourth name that only servers offer: it begins with the letters of t1 without being t1 (utf-16le, gzip2, eng) --
\* a range names exactly one token, so t1 does not make t1x acceptable.  (What a range that EXTENDS an offer's name does is left
\* to the implementation, which accepts it: t1x never occurs as a range.)
Toks == {"t1", "t2", "t3"}
TokRanges == {R(t, "", q, {}) : t \in Toks \cup {"*"}, q \in Qs}
TokOffers == {Of(t, "", {}, "") : t \in Toks \cup {"t1x"}}

VARIABLES header, offers, stage, kind
vars == <<header, offers, stage, kind>>

Spec9110(r) == IF r.type = "*" THEN 1 ELSE IF r.sub = "*" THEN 2 ELSE 3
Acceptable(r, o) == /\ (r.type = "*" \/ r.type = o.type) /\ (r.sub = "*" \/ r.sub = o.sub)
                    /\ r.params \subseteq o.params
\* i is preferred to j
Before(i, j) == LET a == header[i] b == header[j] IN
   \/ a.q > b.q
   \/ (a.q = b.q /\ Spec9110(a) > Spec9110(b))
   \/ (a.q = b.q /\ Spec9110(a) = Spec9110(b) /\ Cardinality(a.params) > Cardinality(b.params))
   \/ (a.q = b.q /\ Spec9110(a) = Spec9110(b) /\ Cardinality(a.params) = Cardinality(b.params) /\ i < j)
Live == {i \in 1..Len(header) : header[i].q > 0}
Serves(i) == \E k \in 1..Len(offers) : Acceptable(header[i], offers[k])
\* the most preferred live range that has an acceptable offer decides; it takes the first offer acceptable to it
Pick == IF header = <<>> THEN 1
        ELSE LET C == {i \in Live : Serves(i)} IN
             IF C = {} THEN 0
             ELSE LET best == CHOOSE i \in C : \A j \in C \ {i} : Before(i, j)
                  IN CHOOSE k \in 1..Len(offers) : Acceptable(header[best], offers[k]) /\ \A m \in 1..(k - 1) : ~Acceptable(header[best], offers[m])

Seqs(S, n) == UNION {[1..m -> S] : m \in 0..n}
Init == /\ stage = 0 /\ offers = <<>>
        /\ \/ kind = "media" /\ header \in Seqs(Ranges, MaxRanges)
           \/ kind = "token" /\ header \in Seqs(TokRanges, TokMaxRanges)
Next == /\ stage = 0 /\ stage' = 1 /\ UNCHANGED <<header, kind>>
        /\ \E os \in Seqs(IF kind = "media" THEN OfferPool ELSE TokOffers, MaxOffers) : Len(os) > 0 /\ offers' = os
Spec == Init /\ [][Next]_vars

\* properties of the selection function itself
ZeroNeverSelects == (stage = 1 /\ Pick # 0 /\ header # <<>>) => \E i \in Live : Acceptable(header[i], offers[Pick])
AbsentSelectsFirst == (stage = 1 /\ header = <<>>) => Pick = 1
\* Format(handlers...): the handler of the picked media type runs; if nothing is acceptable the handler registered as
\* "default" runs wherever it stands in the list, and without one the answer is 406
FormatOutcome(hasDefault) == IF Pick # 0 THEN "offer" ELSE IF hasDefault THEN "default" ELSE "406"
Emit == stage = 1 => PrintT(<<"CASE", ToJson([kind |-> kind, header |-> header, offers |-> offers, pick |-> Pick,
                                                fmtPlain |-> FormatOutcome(FALSE), fmtDefault |-> FormatOutcome(TRUE)])>>)
=============================================================================
