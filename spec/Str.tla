------------------------------- MODULE Str -------------------------------
(* Strings TLC has to look into are sequences of one-character strings.  *)
EXTENDS Naturals, Sequences, FiniteSets

UpperOf == [a |-> "A", b |-> "B", c |-> "C", t |-> "T", x |-> "X"]
LowerC(c) == CASE c = "A" -> "a" [] c = "B" -> "b" [] c = "C" -> "c" [] c = "D" -> "d" [] c = "E" -> "e" [] c = "F" -> "f" [] c = "G" -> "g" [] c = "H" -> "h" [] c = "I" -> "i" [] c = "J" -> "j" [] c = "K" -> "k" [] c = "L" -> "l" [] c = "M" -> "m" [] c = "N" -> "n" [] c = "O" -> "o" [] c = "P" -> "p" [] c = "Q" -> "q" [] c = "R" -> "r" [] c = "S" -> "s" [] c = "T" -> "t" [] c = "U" -> "u" [] c = "V" -> "v" [] c = "W" -> "w" [] c = "X" -> "x" [] c = "Y" -> "y" [] c = "Z" -> "z"
               [] OTHER -> c
Lower(s) == [i \in 1..Len(s) |-> LowerC(s[i])]

Digits == {"0","1","2","3","4","5","6","7","8","9"}
DigitVal(c) == CASE c = "0" -> 0 [] c = "1" -> 1 [] c = "2" -> 2 [] c = "3" -> 3 [] c = "4" -> 4
                 [] c = "5" -> 5 [] c = "6" -> 6 [] c = "7" -> 7 [] c = "8" -> 8 [] c = "9" -> 9
Letters == {"a","b","c","d","e","f","g","h","i","j","k","l","m","n","o","p","q","r","s","t","u","v","w","x","y","z","A","B","C","D","E","F","G","H","I","J","K","L","M","N","O","P","Q","R","S","T","U","V","W","X","Y","Z","B+E2","B+84","B+AA"}

AllIn(s, S) == \A i \in 1..Len(s) : s[i] \in S
HasChar(s, c) == \E i \in 1..Len(s) : s[i] = c

IsPrefixOf(p, s) == Len(p) <= Len(s) /\ SubSeq(s, 1, Len(p)) = p
IsSuffixOf(p, s) == Len(p) <= Len(s) /\ SubSeq(s, Len(s) - Len(p) + 1, Len(s)) = p

\* number of (possibly overlapping) occurrences of non-empty w in s
Occ(w, s) == Cardinality({i \in 1..(Len(s) - Len(w) + 1) : SubSeq(s, i, i + Len(w) - 1) = w})

RECURSIVE Concat(_)
Concat(ss) == IF ss = <<>> THEN <<>> ELSE Head(ss) \o Concat(Tail(ss))

RECURSIVE NatOf(_)
NatOf(s) == IF s = <<>> THEN 0 ELSE NatOf(SubSeq(s, 1, Len(s) - 1)) * 10 + DigitVal(s[Len(s)])

\* strip ALL trailing c, but never below length 1 (utils.TrimRight on a path of length > 1)
RECURSIVE StripTrail(_, _)
StripTrail(s, c) == IF Len(s) > 1 /\ s[Len(s)] = c THEN StripTrail(SubSeq(s, 1, Len(s) - 1), c) ELSE s
=============================================================================
