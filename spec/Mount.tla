------------------------------- MODULE Mount -------------------------------
(***************************************************************************
 C04 -- mounting a sub-application (or using a Group/Route prefix) means the same as
 registering its routes directly under the joined path at the same position.

 A program is built by actions (AddRoute, Open(group|mount, prefix), Close); the state
 keeps the program text `prog` and, maintained incrementally, its FLATTENING `flat`:
 the table obtained by registering every route directly with the joined path, in
 program order.  The meaning of a program is Router.tla's dispatch on `flat`; the real
 code must answer the mount form, the group form and the flat form identically.
 ***************************************************************************)
EXTENDS Naturals, Sequences, FiniteSets, TLC, Json

CONSTANTS Prefixes, RoutePaths,    \* character sequences
          Kinds,                   \* {"use", "GET"}
          ContKinds,               \* {"group", "mount"}
          MaxRoutes, MaxCont, MaxDepth

VARIABLES prog, stack, flat, ncont, done
vars == <<prog, stack, flat, ncont, done>>

RECURSIVE TrimAll(_)
TrimAll(s) == IF s # <<>> /\ s[Len(s)] = "/" THEN TrimAll(SubSeq(s, 1, Len(s) - 1)) ELSE s
\* documented group-path rule: trailing '/' of the prefix trimmed, empty path = the prefix itself
Join(prefix, path) == IF path = <<>> THEN prefix ELSE TrimAll(prefix) \o path
\* a mount point is stored without trailing '/', the root mount as "/"
NormMount(p) == IF TrimAll(p) = <<>> THEN <<"/">> ELSE TrimAll(p)
\* inside a sub-application an empty route path is "/" before the prefix is added
SubPath(p) == IF p = <<>> THEN <<"/">> ELSE p

Top == IF stack = <<>> THEN [kind |-> "app", full |-> <<>>, n |-> 0, inMount |-> FALSE] ELSE stack[Len(stack)]
InMount == \E i \in 1..Len(stack) : stack[i].kind = "mount"

Init == prog = <<>> /\ stack = <<>> /\ flat = <<>> /\ ncont = 0 /\ done = FALSE

Bump(st) == [i \in 1..Len(st) |-> [st[i] EXCEPT !.n = @ + 1]]

AddRoute(k, p) ==
  /\ ~done /\ Len(flat) < MaxRoutes
  /\ LET base == Top.full
         \* the innermost enclosing container decides how an empty path is read
         lp == IF stack # <<>> /\ Top.kind = "mount" THEN SubPath(p) ELSE p
         full == IF stack = <<>> THEN SubPath(p) ELSE Join(base, lp)
     IN flat' = Append(flat, [kind |-> k, path |-> full, id |-> Len(flat) + 1])
  /\ prog' = Append(prog, [op |-> "route", kind |-> k, arg |-> p])
  /\ stack' = Bump(stack)
  /\ UNCHANGED <<ncont, done>>

Open(ck, pre) ==
  /\ ~done /\ ncont < MaxCont /\ Len(stack) < MaxDepth /\ Len(flat) < MaxRoutes
  /\ LET base == IF stack = <<>> THEN <<>> ELSE Top.full
         joined == IF stack = <<>> THEN pre ELSE Join(base, pre)
         full == IF ck = "mount" THEN NormMount(joined) ELSE joined
     IN stack' = Append(stack, [kind |-> ck, full |-> full, n |-> 0, inMount |-> TRUE])
  /\ prog' = Append(prog, [op |-> "open", kind |-> ck, arg |-> pre])
  /\ ncont' = ncont + 1
  /\ UNCHANGED <<flat, done>>

Close ==
  /\ ~done /\ stack # <<>> /\ Top.n > 0            \* empty containers add nothing
  /\ stack' = SubSeq(stack, 1, Len(stack) - 1)
  /\ prog' = Append(prog, [op |-> "close", kind |-> "", arg |-> <<>>])
  /\ UNCHANGED <<flat, ncont, done>>

\* the public RebuildTree() call (dynamic registration flow): never changes the meaning of the program
Rebuild ==
  /\ ~done /\ stack = <<>> /\ prog # <<>> /\ ncont > 0
  /\ \A i \in 1..Len(prog) : prog[i].op # "rebuild"
  /\ prog' = Append(prog, [op |-> "rebuild", kind |-> "", arg |-> <<>>])
  /\ UNCHANGED <<stack, flat, ncont, done>>

\* the application starts and answers a request in the middle of the program (app.Handler() / app.Test()): what was registered
\* before keeps its meaning, what is registered afterwards -- routes, groups, mounted applications -- means what it always means
Serve ==
  /\ ~done /\ stack = <<>>
  /\ \A i \in 1..Len(prog) : prog[i].op # "serve"
  /\ prog' = Append(prog, [op |-> "serve", kind |-> "", arg |-> <<>>])
  /\ UNCHANGED <<stack, flat, ncont, done>>

Finish == ~done /\ stack = <<>> /\ flat # <<>> /\ ncont > 0 /\ done' = TRUE /\ UNCHANGED <<prog, stack, flat, ncont>>

Next == \/ \E k \in Kinds, p \in RoutePaths : AddRoute(k, p)
        \/ \E ck \in ContKinds, pre \in Prefixes : Open(ck, pre)
        \/ Close \/ Rebuild \/ Serve \/ Finish
Spec == Init /\ [][Next]_vars

\* design-level sanity: the flattening has one entry per route of the program, in program order
FlatMatchesProg == Len(flat) = Cardinality({i \in 1..Len(prog) : prog[i].op = "route"})
FlatPathsRooted == \A i \in 1..Len(flat) : flat[i].path # <<>> /\ flat[i].path[1] = "/"
WellNested == Len(stack) = Cardinality({i \in 1..Len(prog) : prog[i].op = "open"}) - Cardinality({i \in 1..Len(prog) : prog[i].op = "close"})

Emit == done => PrintT(<<"CASE", ToJson([prog |-> prog, flat |-> flat])>>)
=============================================================================
