----------------------------- MODULE ClientBody -----------------------------
(***************************************************************************
 C18 (request assembly, body part) -- the body a request carries as a function of what
 was configured on it: form fields (repeated keys, values that need escaping), files
 (field name file<i> unless given, file name, content) together with form fields as
 multipart/form-data, raw bytes, or a JSON value.  What arrives is what was configured:
 every field with every value in order per key, every file with its name and content,
 the raw bytes unchanged; and the result is a deterministic function of the configuration.

 The configuration is built by actions in the order a program would call the setters, so
 that the rule "form fields added after a file keep the request multipart" is part of the
 model (resetBody): AddForm after AddFile does not turn the body back into a url-encoded form.
 ***************************************************************************)
EXTENDS Naturals, Sequences, FiniteSets, TLC, Json
CONSTANTS MaxFields, MaxFiles
Keys == {"k1", "k2"}
Vals == {"plain", "esc", "empty"}                      \* value classes (the harness makes them concrete)
Names == {"plain", "esc"}                              \* file name classes
Contents == {"text", "binary", "boundarylike", "empty"}
RawKinds == {"text", "binary", "empty", "long"}

VARIABLES kind,      \* "none" | "form" | "files" | "raw" | "json" : the body type the request ends up with
          fields,    \* sequence of <<key, value class>> in the order added
          files,     \* sequence of [name, content]
          raw, stage,
          calls      \* the setter calls in program order (the harness makes exactly these calls)
vars == <<kind, fields, files, raw, stage, calls>>
Init == kind = "none" /\ fields = <<>> /\ files = <<>> /\ raw = "" /\ stage = "build" /\ calls = <<>>

AddForm == /\ stage = "build" /\ kind \in {"none", "form", "files"} /\ Len(fields) < MaxFields
           /\ \E k \in Keys, v \in Vals : fields' = Append(fields, <<k, v>>) /\ calls' = Append(calls, [op |-> "form", a |-> k, b |-> v])
           /\ kind' = IF kind = "files" THEN "files" ELSE "form"          \* files win over form fields
           /\ UNCHANGED <<files, raw, stage>>
AddFile == /\ stage = "build" /\ kind \in {"none", "form", "files"} /\ Len(files) < MaxFiles
           /\ \E n \in Names, c \in Contents : files' = Append(files, [name |-> n, content |-> c]) /\ calls' = Append(calls, [op |-> "file", a |-> n, b |-> c])
           /\ kind' = "files" /\ UNCHANGED <<fields, raw, stage>>
SetRaw == /\ stage = "build" /\ kind = "none" /\ \E r \in RawKinds : raw' = r /\ calls' = Append(calls, [op |-> "raw", a |-> r, b |-> ""])
          /\ kind' = "raw" /\ UNCHANGED <<fields, files, stage>>
SetJSON == /\ stage = "build" /\ kind = "none" /\ kind' = "json" /\ calls' = Append(calls, [op |-> "json", a |-> "", b |-> ""]) /\ UNCHANGED <<fields, files, raw, stage>>
Send == stage = "build" /\ stage' = "sent" /\ UNCHANGED <<kind, fields, files, raw, calls>>
Next == AddForm \/ AddFile \/ SetRaw \/ SetJSON \/ Send
Spec == Init /\ [][Next]_vars

\* ---- what arrives
ValuesOf(k) == LET idx == {i \in 1..Len(fields) : fields[i][1] = k}
                   RECURSIVE f(_) f(S) == IF S = {} THEN <<>> ELSE LET m == CHOOSE x \in S : \A y \in S : x <= y IN <<fields[m][2]>> \o f(S \ {m})
               IN f(idx)
ContentType == CASE kind = "form" -> "application/x-www-form-urlencoded" [] kind = "files" -> "multipart/form-data"
                 [] kind = "json" -> "application/json" [] OTHER -> ""
Arrives == [kind |-> kind, ct |-> ContentType,
            form |-> [k \in Keys |-> ValuesOf(k)],                                     \* per key, the values in the order added
            files |-> [i \in 1..Len(files) |-> [field |-> i, name |-> files[i].name, content |-> files[i].content]],  \* field name "file<i>"
            raw |-> raw]
\* a request that ends up multipart carries every form field added before or after the files
FilesKeepFields == (stage = "sent" /\ kind = "files") => \A i \in 1..Len(fields) : \E j \in 1..Len(Arrives.form[fields[i][1]]) : Arrives.form[fields[i][1]][j] = fields[i][2]
Emit == stage = "sent" => PrintT(<<"CASE", ToJson([calls |-> calls, arrives |-> Arrives])>>)
=============================================================================
