--------------------------- MODULE EncryptCookie ---------------------------
(***************************************************************************
 C20 -- encrypted cookies, symbolically (Dolev-Yao style): the server ISSUES ciphertexts
 ct(name, plaintext) under its key; the client knows what it saw on the wire and may
 return it unchanged, move it to another name, or mutate it.  Handlers behind the
 middleware see the plaintext of an issued ciphertext, the empty string for anything
 that was not issued under the current key, and excepted names untouched in both
 directions.  The wire never carries the plaintext of a protected cookie.
 ***************************************************************************)
EXTENDS Naturals, Sequences, FiniteSets, TLC, Json
CONSTANTS Names, Classes, KeyLens     \* Classes: what the plaintext looks like -- "ascii", "binary", "empty", "long", "huge" (its ciphertext exceeds 4 KiB),
                                      \* "issued" (the text is itself a ciphertext the server issued under the current key: still just a text)
\* what a client can present under a name
Kinds == {"absent", "own", "swapped", "flip", "truncate", "extend", "otherkey", "plaintext", "garbage", "empty"}
VARIABLES stage, except, keylen, class, issued, present, view, wire,
          outcome    \* how the handler of request 1 ends after it set the cookies: "ok" | "error" (it returns an error)
vars == <<stage, except, keylen, class, issued, present, view, wire, outcome>>

Init == \* the except list names cookies exactly: an entry that differs in letter case ("A") excepts nothing
        /\ stage = 0 /\ except \in SUBSET (Names \cup {"A"}) /\ keylen \in KeyLens /\ class \in Classes
        /\ outcome \in {"ok", "error"}
        /\ issued = {} /\ present = [n \in Names |-> "absent"] /\ view = [n \in Names |-> ""] /\ wire = [n \in Names |-> ""]

\* request 1: the handler sets every cookie (plaintext of `class`, distinguishable per name) and returns, possibly with an error;
\* whichever way the response is produced, it carries ciphertext for protected names and the plaintext for excepted ones
HandlerSets == /\ stage = 0 /\ stage' = 1
               /\ issued' = {n \in Names : n \notin except}
               /\ wire' = [n \in Names |-> IF n \in except THEN "plaintext" ELSE "ciphertext"]
               /\ UNCHANGED <<except, keylen, class, present, view, outcome>>
\* request 2: the client presents something under every name
Other(n) == CHOOSE m \in Names : m # n
ClientReturns == /\ stage = 1 /\ stage' = 2
                 /\ \E pr \in [Names -> Kinds] :
                       /\ \A n \in Names : (pr[n] = "swapped" => Other(n) \in issued) /\ (pr[n] \in {"own", "flip", "truncate", "extend"} => n \in issued)
                       /\ present' = pr
                       /\ view' = [n \in Names |->
                             IF pr[n] = "absent" THEN "absent"
                             ELSE IF n \in except THEN "raw"                    \* excepted: exactly what was presented
                             ELSE CASE pr[n] = "own" -> "pt:own"
                                    [] pr[n] = "swapped" -> "pt:other"          \* issued by the server under the current key (for another name)
                                    [] OTHER -> "empty"]
                 /\ UNCHANGED <<except, keylen, class, issued, wire, outcome>>
Next == HandlerSets \/ ClientReturns
Spec == Init /\ [][Next]_vars

\* a handler never sees text that was neither issued for some cookie nor (for excepted names) presented verbatim
OnlyAuthentic == stage = 2 => \A n \in Names : (n \notin except /\ view[n] \notin {"absent", "empty"}) => present[n] \in {"own", "swapped"}
NeverPlainOnWire == stage >= 1 => \A n \in Names : n \notin except => wire[n] = "ciphertext"
Emit == stage = 2 => PrintT(<<"CASE", ToJson([outcome |-> outcome, except |-> except, keylen |-> keylen, class |-> class, present |-> present, view |-> view, wire |-> wire])>>)
=============================================================================
