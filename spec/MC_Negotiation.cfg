SPECIFICATION Spec
CONSTANTS
  MaxRanges = 3
  MaxOffers = 2
  QSet = {0, 500, 1000}
  PSets <- PSmall
  TokMaxRanges = 4
INVARIANT Emit
INVARIANT ZeroNeverSelects
INVARIANT AbsentSelectsFirst
