SPECIFICATION Spec
CONSTANTS
  Scope = "full"
INVARIANT Emit
INVARIANT ZeroNeverSelects
INVARIANT AbsentSelectsFirst
