----------------------------- MODULE MC_Router -----------------------------
(* Model for Router.tla; Router_data.tla is written by the check from measurements on the real code. *)
EXTENDS Router, Router_data
B(t, to) == [t |-> t, to |-> to]
D_EpBehs == {B("stop", ""), B("next", "")}
D_UseBehs == D_EpBehs \cup {B("rw", p) : p \in D_RwTargets} \cup {B("ov", m) : m \in D_OvTargets}
=============================================================================
