-------------------------------- MODULE Csrf --------------------------------
(***************************************************************************
 C16 -- CSRF: an unsafe request reaches the protected handler only if it presents,
 through the configured extractor and matching the CSRF cookie, a token the server
 issued that is unexpired, not consumed (single use) and not deleted, and -- when an
 Origin (or on https a Referer) is present -- comes from the same origin or a trusted one.
 Safe methods always pass and leave a valid token cookie; a failing store rejects.

 Tokens are natural numbers in issue order (counting KeyGenerator); 0 = none, -1 = forged.
 ***************************************************************************)
EXTENDS Integers, Sequences, FiniteSets, TLC, Json
CONSTANTS Idle, MaxTok, HistDepth, SingleUse, CookieExtractor,
          SessionBackend   \* TRUE: tokens live in the (one) client session, which holds a single token at a time
VARIABLES clock, tokens, next, storeUp, hist
vars == <<clock, tokens, next, storeUp, hist>>
\* tokens[t] = expiry second (0 = not in the store)
Live(t) == t \in 1..MaxTok /\ storeUp /\ tokens[t] # 0 /\ tokens[t] > clock

\* where the request claims to come from
OriginClasses == {"absent", "null", "same", "other", "trusted", "trustedsub", "lookalike", "otherscheme", "otherport", "malformed"}
RefererClasses == {"absent", "same", "trusted", "trustedpath", "other", "lookalike"}
OriginOK(o, https, r) ==
  IF o \in {"absent", "null"}
  THEN (~https \/ r \in {"same", "trusted", "trustedpath"})   \* on https a Referer must vouch for the request
  ELSE o \in {"same", "trusted", "trustedsub"}

\* storing token t (with the session back end it replaces whatever the session held)
Put(tk, t) == IF SessionBackend THEN [x \in 1..MaxTok |-> IF x = t THEN clock + Idle ELSE 0] ELSE [tk EXCEPT ![t] = clock + Idle]
\* removing token t (the session back end simply forgets the session's token, whichever it is)
Drop(tk, t) == IF SessionBackend THEN [x \in 1..MaxTok |-> 0] ELSE [tk EXCEPT ![t] = 0]
Init == clock = 0 /\ tokens = [t \in 1..MaxTok |-> 0] /\ next = 1 /\ storeUp = TRUE /\ hist = <<>>
Ev(op, cookie, presented, o, https, r, pass, issued, d) ==
  [op |-> op, cookie |-> cookie, presented |-> presented, origin |-> o, https |-> https, referer |-> r, pass |-> pass, issued |-> issued, d |-> d]

\* GET: always passes; the response carries a valid token: the cookie's own if it is live, else a new one
Safe(cookie) ==
  /\ next <= MaxTok
  /\ LET keep == cookie > 0 /\ Live(cookie)
         t == IF keep THEN cookie ELSE next
     IN /\ tokens' = IF storeUp THEN Put(tokens, t) ELSE tokens
        /\ next' = IF keep THEN next ELSE next + 1
        /\ hist' = Append(hist, Ev("safe", cookie, 0, "absent", FALSE, "absent", TRUE, t, 0))
  /\ UNCHANGED <<clock, storeUp>>

\* POST: cookie and presented token are whatever the client sends (any issued token, a forged one, nothing)
Unsafe(cookie, presented, o, https, r) ==
  /\ next <= MaxTok
  /\ LET pass == /\ OriginOK(o, https, r)
                 /\ presented # 0
                 /\ (CookieExtractor \/ presented = cookie)
                 /\ Live(presented)
         t == IF pass /\ ~SingleUse THEN presented ELSE next
     IN /\ tokens' = IF ~pass THEN tokens
                     ELSE IF SingleUse THEN Put(Drop(tokens, presented), next)
                     ELSE Put(tokens, presented)
        /\ next' = IF pass /\ SingleUse THEN next + 1 ELSE next
        /\ hist' = Append(hist, Ev("unsafe", cookie, presented, o, https, r, pass, IF pass THEN t ELSE 0, 0))
  /\ UNCHANGED <<clock, storeUp>>
\* the application deletes the token named by the request's cookie (logout).  The route sits behind the middleware:
\* as a safe request it first leaves a valid token (the cookie's own if live, else a new one), then the cookie's token goes
DeleteToken(cookie) ==
  /\ cookie \in 1..MaxTok /\ next <= MaxTok
  /\ LET keep == Live(cookie)
         t == IF keep THEN cookie ELSE next
         tk == IF storeUp THEN Put(tokens, t) ELSE tokens
     IN /\ tokens' = IF storeUp THEN Drop(tk, cookie) ELSE tk
        /\ next' = IF keep THEN next ELSE next + 1
        /\ hist' = Append(hist, Ev("delete", cookie, 0, "absent", FALSE, "absent", TRUE, t, 0))
  /\ UNCHANGED <<clock, storeUp>>
StoreFault == /\ storeUp' = ~storeUp
              /\ hist' = Append(hist, Ev(IF storeUp THEN "storedown" ELSE "storeup", 0, 0, "absent", FALSE, "absent", TRUE, 0, 0))
              /\ UNCHANGED <<clock, tokens, next>>
Tick(d) == clock' = clock + d /\ hist' = Append(hist, Ev("tick", 0, 0, "absent", FALSE, "absent", TRUE, 0, d)) /\ UNCHANGED <<tokens, next, storeUp>>

Cookies == -1..(next - 1)
Next == \/ \E c \in Cookies : Safe(c)
        \/ \E c \in Cookies, p \in Cookies, o \in OriginClasses, https \in BOOLEAN, r \in RefererClasses :
              \* every Origin class meets every Referer class on both schemes: the Referer vouches only when it is consulted (https, no
              \* usable Origin) -- next to a foreign Origin, or on http, it changes nothing
              /\ (c # p => o = "same")                                      \* token swaps / forgeries from the same origin only
              /\ (c = p => c # 0)
              /\ Unsafe(c, p, o, https, r)
        \/ \E c \in Cookies : DeleteToken(c)
        \/ (~SessionBackend /\ StoreFault)
        \/ \E d \in {2, 4} : Tick(d)
Spec == Init /\ [][Next]_vars

\* properties of the specification itself
PassNeedsLiveIssuedToken == \A i \in 1..Len(hist) : (hist[i].op = "unsafe" /\ hist[i].pass) => hist[i].presented \in 1..MaxTok
ForgedNeverPasses == \A i \in 1..Len(hist) : (hist[i].op = "unsafe" /\ hist[i].presented = -1) => ~hist[i].pass
EmitHist == (TLCGet("level") = HistDepth) => PrintT(<<"HIST", ToJson([hist |-> hist])>>)
=============================================================================
