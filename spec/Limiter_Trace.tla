--------------------------- MODULE Limiter_Trace ---------------------------
(* Backward conformance for C13: every execution the gate scheduler produced on the real middleware
   must be a behaviour of Limiter.tla; Lock/Unlock steps are not logged and are inferred by TLC. *)
EXTENDS Limiter, TraceBase

TInit == TLCSet(7, 0) /\ Init /\ l = 1 /\ silent = 0

P == Cur.p
TStart == IsEv("start") /\ Start(P, Cur.key, Cur.max, Cur.hs) /\ Consume
\* a storage read returns exactly the live entry
ValOK(e) == e.curr = Cur.curr /\ e.prev = Cur.prev /\ e.exp = Cur.exp
TGet == IsEv("get") /\ (Get(P) \/ Get2(P)) /\ loc[P].key = Cur.key /\ ValOK(loc'[P].e) /\ Consume
\* a storage write stores exactly what the specification computes, with the TTL it computes
TSet == IsEv("set") /\ (Set(P) \/ Set2(P)) /\ loc[P].key = Cur.key
        /\ ValOK(store'[Cur.key]) /\ store'[Cur.key].dl - clock = Cur.ttl /\ Consume
THandler == IsEv("handler") /\ Handler(P) /\ Consume
TReject == IsEv("reject") /\ Reject(P) /\ loc[P].ra = Cur.ra /\ Consume
TTick == IsEv("tick") /\ Tick(Cur.d) /\ Consume
TReset == IsEv("reset") /\ Consume
          /\ clock' = 0 /\ store' = [k \in Keys |-> Nil] /\ mutex' = 0
          /\ pc' = [p \in Procs |-> "idle"] /\ loc' = [p \in Procs |-> NoLoc] /\ ghost' = [k \in Keys |-> [exp |-> 0, n |-> 0]]
          /\ out' = [p \in Procs |-> [status |-> 0, ra |-> 0]] /\ adm' = [k \in Keys |-> [wexp |-> 0, n |-> 0]] /\ hist' = <<>>
\* unlogged: acquiring / releasing the middleware's mutex
TSilent == Silent(4) /\ \E p \in Procs : Lock(p) \/ Unlock(p) \/ Lock2(p) \/ Unlock2(p) \/ Skip2(p)

TNext == TStart \/ TGet \/ TSet \/ THandler \/ TReject \/ TTick \/ TReset \/ TSilent
TSpec == TInit /\ [][TNext]_<<vars, l, silent>>
\* per-window budget on recorded executions (the requests of a recorded scenario that share a key use one limit)
WindowBudgetT == Alg = "fixed" => \A k \in Keys : \A p \in Procs : (loc[p].key = k /\ pc[p] = "handler") => adm[k].n <= loc[p].max
TView == <<View, l, silent>>
=============================================================================
