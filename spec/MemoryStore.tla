---------------------------- MODULE MemoryStore ----------------------------
(***************************************************************************
 The in-process store behind the limiter, the cache, CSRF and sessions when no Storage is
 configured (internal/memory): a map from keys to values with a deadline, read and written
 under a read/write lock, and a garbage collector that runs every second in TWO critical
 sections -- it lists the expired keys under the read lock (GcScan), releases it, and
 removes them under the write lock (GcSweep).  Anything can happen between the two: that
 is why the sweep looks at every listed key again (Recheck).

 What users of the store rely on: the collector is invisible.  View(k) -- what Get(k)
 returns -- is changed by Set, Delete and the passing of time only.
 ***************************************************************************)
EXTENDS Naturals, FiniteSets, TLC
CONSTANTS Keys, MaxClock, TTLs,
          Recheck          \* TRUE: the sweep re-examines each listed key (the code); FALSE: it deletes what the scan listed (must fail)
VARIABLES data,            \* key -> [v, e]: value (a write counter) and deadline (0 = none); v = 0: absent
          clock, writes,
          gc, listed, gts  \* collector: "idle" | "scanned", the keys the scan listed, the time the scan read
vars == <<data, clock, writes, gc, listed, gts>>
Absent == [v |-> 0, e |-> 0]
Init == data = [k \in Keys |-> Absent] /\ clock = 0 /\ writes = 0 /\ gc = "idle" /\ listed = {} /\ gts = 0

Expired(it, t) == it.e # 0 /\ it.e <= t
View(k) == IF data[k].v = 0 \/ Expired(data[k], clock) THEN 0 ELSE data[k].v

Set(k, ttl) == /\ writes < 4 /\ writes' = writes + 1
               /\ data' = [data EXCEPT ![k] = [v |-> writes + 1, e |-> IF ttl = 0 THEN 0 ELSE clock + ttl]]
               /\ UNCHANGED <<clock, gc, listed, gts>>
Delete(k) == data' = [data EXCEPT ![k] = Absent] /\ UNCHANGED <<clock, writes, gc, listed, gts>>
Tick == clock < MaxClock /\ clock' = clock + 1 /\ UNCHANGED <<data, writes, gc, listed, gts>>
GcScan == /\ gc = "idle" /\ gc' = "scanned" /\ gts' = clock
          /\ listed' = {k \in Keys : data[k].v # 0 /\ Expired(data[k], clock)}
          /\ UNCHANGED <<data, clock, writes>>
GcSweep == /\ gc = "scanned" /\ gc' = "idle" /\ listed' = {}
           /\ data' = [k \in Keys |-> IF k \in listed /\ (~Recheck \/ Expired(data[k], gts)) THEN Absent ELSE data[k]]
           /\ UNCHANGED <<clock, writes, gts>>
Next == (\E k \in Keys, ttl \in TTLs : Set(k, ttl)) \/ (\E k \in Keys : Delete(k)) \/ Tick \/ GcScan \/ GcSweep
Spec == Init /\ [][Next]_vars

\* the collector never changes what a reader sees
GcInvisible == [][(gc' # gc) => \A k \in Keys : View(k)' = View(k)]_vars
\* and it does its job: after a sweep nothing that was expired when the scan ran is left
SweepCollects == [][(gc = "scanned" /\ gc' = "idle") => \A k \in Keys : ~(data'[k].v # 0 /\ Expired(data'[k], gts) /\ k \in listed)]_vars
=============================================================================
