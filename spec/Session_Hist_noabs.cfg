SPECIFICATION Spec
CONSTANTS
  Idle = 5
  Abs = 0
  Vals = {"va", "vb"}
  HistDepth = 40
  MaxIds = 30
INVARIANT EmitHist
INVARIANT NeverAdoptForeignId
INVARIANT FreshMeansNew
