SPECIFICATION Spec
CONSTANTS
  Scope = "quick"
  Prefixes <- D_Prefixes
  RoutePaths <- D_RoutePaths
  Kinds = {"use", "GET"}
  ContKinds = {"group", "mount"}
  MaxRoutes = 2
  MaxCont = 3
  MaxDepth = 3
INVARIANT Emit
INVARIANT FlatMatchesProg
INVARIANT FlatPathsRooted
INVARIANT WellNested
