-------------------------------- MODULE Wire --------------------------------
(***************************************************************************
 C07 -- one connection as a state machine: Idle -> Read(request) -> (malformed: Respond 4xx,
 Closed | well-formed: Dispatch(handler's helper calls) -> Respond -> Idle).  The
 specification prescribes the status for each request class, the fate of the connection
 (after a malformed request nothing more is served on it), and for each response helper
 called with a hostile argument that the response is well-formed: the helper's value adds
 no header line and does not start the body early.
 ***************************************************************************)
EXTENDS Naturals, Sequences, FiniteSets, TLC, Json
\* request classes and the set of statuses the framework may answer with
ReqClasses == {"ok", "unknownmethod", "badmethodbytes", "spaceintarget", "noversion", "clabc", "clneg", "dupcl", "badchunk",
               "hugeheader", "hugetarget", "bodytoolarge", "hostileheaders", "hostileframing", "absoluteuri", "removedstandard"}
\* "removedstandard": a standard method (DELETE) that the application variant "methods" has removed from RequestMethods
Status(r, v) == CASE r = "removedstandard" -> (IF v = "methods" THEN {501} ELSE {200})
               [] r \in {"ok", "burst"} -> {200} [] r = "absoluteuri" -> {200} [] r = "hostileheaders" -> {200}
               \* values the server's own request parser looks at (Host, Transfer-Encoding, multipart boundary): it may serve, not find or reject
               [] r = "hostileframing" -> {200, 400, 404}
               [] r = "unknownmethod" -> {501} [] r = "badmethodbytes" -> {400, 501}
               [] r = "spaceintarget" -> {400, 404}      \* RFC 9112 3: a recipient may instead split the request line at the last space
               [] r = "hugeheader" -> {431} [] r = "hugetarget" -> {431} [] r = "bodytoolarge" -> {413}
               [] OTHER -> {400}
\* a status the framework answers itself before any handler ran closes the connection; 200 and 501 (fiber's own
\* "method not implemented", answered on a well-formed request) keep it
Closing(st) == st \notin {200, 404, 501}
Fate(r, v) == {[status |-> st, second |-> IF Closing(st) THEN 0 ELSE 200] : st \in Status(r, v)}
\* response helpers a handler may call, and hostile argument classes
Helpers == {"set", "append", "vary", "location", "redirect", "cookievalue", "cookiepath", "cookiedomain", "links", "typecharset",
            "attachment", "download", "jsonp", "format", "flash", "sendstring",
            "flashlevel",     \* flash messages with levels 10, 13, 127: a level is one byte of the cookie
            "flashinput"}     \* Redirect().WithInput(): the text is what the CLIENT sent (query), not what the handler chose
\* "len13" .. "len2570": harmless text whose LENGTH written big-endian contains the bytes 0x0D / 0x0A (13, 266 = 0x010A,
\* 269 = 0x010D, 2570 = 0x0A0A): a length-prefixed encoding inside a header value must not put them on the wire
ArgClasses == {"plain", "cr", "lf", "crlf", "crlfcrlf", "nul", "long", "utf8crlf", "len13", "len266", "len269", "len2570"}
\* application variants: default context, custom context (NewCtxFunc), Immutable, a custom RequestMethods list, UnescapePath
CtxKinds == {"default", "custom", "immutable", "methods", "unescape"}

VARIABLES conn, first, helper, arg, ctxkind, served
vars == <<conn, first, helper, arg, ctxkind, served>>
Init == conn = "idle" /\ first = "" /\ helper = "" /\ arg = "" /\ ctxkind \in CtxKinds /\ served = <<>>
\* the client sends the first request of the connection
Read1 == /\ conn = "idle" /\ served = <<>> /\ \E r \in ReqClasses : first' = r
         /\ conn' = "read" /\ UNCHANGED <<helper, arg, ctxkind, served>>
\* malformed: the mapped 4xx, then the connection is closed
Reject == /\ conn = "read" /\ \E st \in Status(first, ctxkind) : Closing(st) /\ served' = Append(served, st) /\ conn' = "closed"
          /\ UNCHANGED <<first, helper, arg, ctxkind>>
\* well-formed: the handler runs and calls a response helper with an argument of some class
Dispatch == /\ conn = "read"
            /\ \E st \in Status(first, ctxkind) : ~Closing(st) /\ served' = Append(served, st)
            /\ \E h \in Helpers, a \in ArgClasses : helper' = h /\ arg' = a
            /\ conn' = "idle2" /\ UNCHANGED <<first, ctxkind>>
\* a second, plain request on the same connection: served iff the connection is still open
Second == /\ conn \in {"idle2", "closed"} /\ Len(served) = 1
          /\ served' = Append(served, IF conn = "closed" THEN 0 ELSE 200)       \* 0: no response, the peer closed
          /\ conn' = "done" /\ UNCHANGED <<first, helper, arg, ctxkind>>
\* several connections at once, each with one well-formed request for the same target (the plain handler, or a file sent with
\* an option set nobody used before): every one of them is answered -- no first-use race may wedge the server
BurstTargets == {"ok", "sendfile", "download"}
Burst == /\ conn = "idle" /\ served = <<>> /\ \E tg \in BurstTargets : helper' = tg
         /\ first' = "burst" /\ arg' = "plain" /\ served' = <<200, 200>> /\ conn' = "done" /\ UNCHANGED ctxkind
Next == Read1 \/ Reject \/ Dispatch \/ Second \/ Burst
Spec == Init /\ [][Next]_vars

NoResponseAfterMalformed == conn = "done" => (served[2] = 0 <=> Closing(served[1]))
\* only for well-formed first requests does a helper run; the helper scenario is meaningful only for the plain request
Emit == conn = "done" /\ (first \in {"ok", "burst"} \/ helper \in {"", "set"}) /\ (first = "ok" \/ arg \in {"", "plain"}) =>
          PrintT(<<"CASE", ToJson([first |-> first, helper |-> helper, arg |-> arg, ctx |-> ctxkind, fate |-> Fate(first, ctxkind)])>>)
=============================================================================
