SPECIFICATION Spec
CONSTANTS
  MaxReq = 2
  Pool = "tiny"
  WithBad = TRUE
  KeepStale = TRUE
INVARIANT RoundTrip
INVARIANT StatusByMode
