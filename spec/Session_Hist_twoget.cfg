SPECIFICATION Spec
CONSTANTS
  Idle = 5
  Abs = 9
  Vals = {"va"}
  HistDepth = 40
  MaxIds = 30
  Ops = {"begin", "set", "reget", "save"}
  Modes = {"store"}
INVARIANT EmitHist
INVARIANT NeverAdoptForeignId
INVARIANT FreshMeansNew
