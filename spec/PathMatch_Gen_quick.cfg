SPECIFICATION Spec
CONSTANTS
  MaxSeg = 3
  Pool = "small"
  ShortLen = 3
INVARIANT Emit
INVARIANT Lemma
