SPECIFICATION Spec
CONSTANTS
  MaxCalls = 3
INVARIANT Emit
INVARIANT SetOverrides
