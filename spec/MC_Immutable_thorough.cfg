SPECIFICATION Spec
CONSTANTS
  Accessors = {"params", "path", "originalurl", "protocol", "query", "queries", "formvalue", "header", "reqheaders", "cookies", "host", "hostname", "body", "bodyraw", "ip", "baseurl", "subdomains", "method", "rangetype", "routepath", "genericquery", "genericquerybytes", "genericparams", "bindquery", "bindform", "bindheader", "bindcookie", "binduri", "bindjson"}
  Shapes = {"get", "unmatched", "form", "json", "identity", "unknownenc"}
  ReuseKinds = {"same", "shorter", "longer", "otherroute", "malformed"}
  MaxReuse = 5
  Scratch = {}
  Aliasing = {}
INVARIANT StaysValid
INVARIANT StableInHandler
INVARIANT Emit
