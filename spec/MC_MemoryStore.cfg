SPECIFICATION Spec
CONSTANTS
  Keys = {"a", "b"}
  MaxClock = 4
  TTLs = {0, 1, 2}
  Recheck = TRUE
PROPERTY GcInvisible
PROPERTY SweepCollects
