SPECIFICATION Spec
CONSTANTS
  Names = {"a", "b"}
  Classes = {"ascii", "binary", "empty", "long", "huge", "issued"}
  KeyLens = {16, 24, 32}
INVARIANT Emit
INVARIANT OnlyAuthentic
INVARIANT NeverPlainOnWire
