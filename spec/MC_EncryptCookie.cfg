SPECIFICATION Spec
CONSTANTS
  Names = {"a", "b"}
  Classes = {"ascii", "binary", "empty", "long"}
  KeyLens = {16, 24, 32}
INVARIANT Emit
INVARIANT OnlyAuthentic
INVARIANT NeverPlainOnWire
