SPECIFICATION Spec
CONSTANTS
  Scope = "full"
INVARIANT Emit
INVARIANT NeverStarWithCredentials
INVARIANT AcaoOnlyIfAllowed
INVARIANT LookAlikesRefused
INVARIANT SpellingIrrelevant
INVARIANT OnlyOptionsIsPreflight
