SPECIFICATION Spec
CONSTANTS
  MaxReq = 1
  Pool = "full"
  WithBad = TRUE
  KeepStale = FALSE
INVARIANT RoundTrip
INVARIANT StatusByMode
INVARIANT Emit
