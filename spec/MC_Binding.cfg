SPECIFICATION Spec
CONSTANTS
  MaxReq = 1
  Pool = "full"
  WithBad = TRUE
INVARIANT RoundTrip
INVARIANT StatusByMode
INVARIANT Emit
