------------------------------- MODULE Binding -------------------------------
(***************************************************************************
 C11 -- the path of a struct value from the bundled client to the handler's Bind call.

   client:  SetStruct(v)   the value is written into the request's parameter holder of the
                           chosen source (SetValWithStruct: for every field Del(name), then one
                           Add per scalar / per slice element); for the body codecs the holder
                           is the value itself.  A later SetStruct overrides an earlier one.
   wire:    Send(mode)     the holder is serialised, transmitted and parsed again -- the
                           specification says this is the identity on what each source can
                           carry (Representable) -- and the handler binds from the same source:
                           scalars take the entry, slices take all entries, each split at commas
                           when EnableSplittingOnParsers is on.
   server:  Bad(kind, mode) un-bindable input: the bind reports an error; with automatic
                           handling the reply is a 400, otherwise the handler decides.

 Strings are sequences of atoms (the harness maps each atom to bytes) so that the
 specification itself can split at commas.  Numbers are opaque tokens.
 ***************************************************************************)
EXTENDS Naturals, Sequences, FiniteSets, TLC, Json

CONSTANTS MaxReq,        \* requests per behaviour (they meet the same pooled contexts and decoders)
          Pool,          \* "full" | "small": which value pool SetStruct draws from
          WithBad,       \* whether un-bindable requests are part of the behaviours
          KeepStale      \* FALSE: the holder as documented.  TRUE (vacuity guard): a SetStruct whose slice is empty leaves the entries
                         \* of an earlier SetStruct in place -- RoundTrip must then fail

Sources   == {"query", "form", "multipart", "header", "cookie", "json", "xml", "cbor"}
KVSources == {"query", "form", "multipart", "header", "cookie"}
Modes     == {"manual", "auto"}

ScalarFields == {"s", "i", "u", "i8", "f", "b"}
SliceFields  == {"ss", "is", "fs", "bs"}
Fields       == ScalarFields \cup SliceFields

\* ---- value pools (strings: sequences of atoms)
StrFull == { <<>>, <<"a">>, <<"a", "sp", "b">>, <<"a", "amp", "b", "eq", "c">>, <<"a", "plus", "b">>, <<"pct41">>, <<"pct">>,
             <<"eacute", "cjk", "emoji">>, <<"a", "comma", "b">>, <<"comma">>, <<"a", "comma">>, <<"lb", "a", "rb">>, <<"a", "semi", "b">>,
             <<"dq", "a", "dq">>, <<"lt", "a", "gt", "amp">>, <<"slash", "qm", "hash">>, <<"sp", "a", "sp">>, <<"bs", "a">>, <<"long">>,
             <<"a", "nl", "b">>, <<"tab", "a">>, <<"colon", "a", "dot">> }
StrSmall == { <<>>, <<"a">>, <<"a", "comma", "b">>, <<"a", "amp", "b", "eq", "c">> }
StrPool  == IF Pool = "full" THEN StrFull ELSE StrSmall
IntPool  == IF Pool = "full" THEN {"0", "-1", "42", "9223372036854775807", "-9223372036854775808"} ELSE {"0", "42"}
UintPool == IF Pool = "full" THEN {"0", "7", "18446744073709551615"} ELSE {"7"}
I8Pool   == IF Pool = "full" THEN {"0", "-128", "127"} ELSE {"127"}
FltPool  == IF Pool = "full" THEN {"0", "1.5", "-0.000001", "1e300", "0.1", "123456789.125"} ELSE {"1.5"}
SSPool   == IF Pool = "full"
            THEN { <<>>, << <<"a">> >>, << <<"a">>, <<"b">> >>, << <<>> >>, << <<"a">>, <<>>, <<"b">> >>, << <<"a", "comma", "b">>, <<"c">> >>,
                   << <<"a", "amp", "b", "eq", "c">>, <<"eacute", "cjk", "emoji">> >>, << <<"a", "sp", "b">>, <<"pct41">>, <<"a", "plus", "b">> >>,
                   << <<"a">>, <<"a">>, <<"a">>, <<"a">>, <<"a">>, <<"a">>, <<"a">>, <<"a">>, <<"a">>, <<"a">>, <<"a">>, <<"a">> >> }
            ELSE { <<>>, << <<"a">>, <<"b">> >>, << <<"a", "comma", "b">> >> }
ISPool   == IF Pool = "full" THEN { <<>>, <<"1">>, <<"1", "-2", "3">>, <<"9223372036854775807", "0">> } ELSE { <<>>, <<"1", "-2">> }
FSPool   == IF Pool = "full" THEN { <<>>, <<"1.5", "-2.25">> } ELSE { <<>> }
BSPool   == IF Pool = "full" THEN { <<>>, <<"true", "false", "true">> } ELSE { <<>>, <<"true">> }
PoolOf(f) == CASE f = "s" -> StrPool [] f = "i" -> IntPool [] f = "u" -> UintPool [] f = "i8" -> I8Pool [] f = "f" -> FltPool
               [] f = "b" -> {"true", "false"} [] f = "ss" -> SSPool [] f = "is" -> ISPool [] f = "fs" -> FSPool [] f = "bs" -> BSPool

Base  == [s |-> <<"a">>, i |-> "42", u |-> "7", i8 |-> "127", f |-> "1.5", b |-> "true", ss |-> << <<"a">>, <<"b">> >>, is |-> <<"1", "-2">>, fs |-> <<"1.5">>, bs |-> <<"true">>]
Zero  == [s |-> <<>>, i |-> "0", u |-> "0", i8 |-> "0", f |-> "0", b |-> "false", ss |-> <<>>, is |-> <<>>, fs |-> <<>>, bs |-> <<>>]
\* the values SetStruct draws from: the base value with one field replaced, plus all-zero
Values == IF Pool = "tiny" THEN {Base, Zero}
          ELSE {[Base EXCEPT ![fl] = x] : <<fl, x>> \in UNION {{<<g, y>> : y \in PoolOf(g)} : g \in Fields}} \cup {Zero}
\* what an earlier SetStruct on the same holder may have left behind
Stale  == [Base EXCEPT !.ss = << <<"z">>, <<"z">>, <<"z">> >>, !.is = <<"9", "9", "9">>, !.s = <<"z", "z">>]
Priors == IF Pool = "tiny" THEN {Stale} ELSE {Base, Zero, Stale}

\* ---- client side: the holder after SetStruct(v) -- one text entry per scalar, one per slice element (an empty slice: none)
Enc(v) == [fl \in Fields |-> IF fl \in ScalarFields THEN << v[fl] >> ELSE v[fl]]

\* ---- server side
RECURSIVE SplitComma(_)
SplitComma(str) == LET idx == {k \in 1..Len(str) : str[k] = "comma"}
                   IN IF idx = {} THEN << str >>
                      ELSE LET k == CHOOSE m \in idx : \A n \in idx : m <= n
                           IN << SubSeq(str, 1, k - 1) >> \o SplitComma(SubSeq(str, k + 1, Len(str)))
RECURSIVE Flat(_)
Flat(ss) == IF ss = <<>> THEN <<>> ELSE Head(ss) \o Flat(Tail(ss))
HasComma(str) == \E k \in 1..Len(str) : str[k] = "comma"
\* binding the holder's entries: a scalar takes its entry (absent: the zero value), a slice takes every entry,
\* each split at commas when splitting is on (only string elements can contain one)
Dec(source, w, split) == [fl \in Fields |->
                    IF fl \in ScalarFields THEN (IF w[fl] = <<>> THEN Zero[fl] ELSE w[fl][1])
                    ELSE IF split /\ source \in KVSources /\ fl = "ss" THEN Flat([k \in 1..Len(w[fl]) |-> SplitComma(w[fl][k])])
                    ELSE w[fl]]

\* ---- what each source can carry (outside it the value is still sent: the bind must not panic, nothing is compared)
CookieOctet(a) == a \notin {"sp", "dq", "comma", "semi", "bs", "eacute", "cjk", "emoji", "nl", "tab"}        \* RFC 6265 4.1.1
HeaderOK(str)  == /\ \A k \in 1..Len(str) : str[k] # "nl"
                  /\ (str # <<>> => str[1] \notin {"sp", "tab"} /\ str[Len(str)] \notin {"sp", "tab"})        \* OWS around a field value is not part of it
StrOK(src, str) == CASE src = "cookie" -> \A k \in 1..Len(str) : CookieOctet(str[k])
                     [] src = "header" -> HeaderOK(str)
                     [] OTHER -> TRUE
Representable(src, v) == StrOK(src, v.s) /\ \A k \in 1..Len(v.ss) : StrOK(src, v.ss[k])
NoCommas(v) == \A k \in 1..Len(v.ss) : ~HasComma(v.ss[k])

BadKinds(src) == IF src \in KVSources THEN {"notanumber", "overflow"} \cup (IF src \in {"query", "form", "multipart"} THEN {"bracket"} ELSE {})
                 ELSE {"garbage", "wrongtype", "truncated"}

VARIABLES src, split, holder, cur, nset, nreq, hist
vars == <<src, split, holder, cur, nset, nreq, hist>>
None == [none |-> TRUE]

Init == /\ src \in Sources /\ split \in BOOLEAN
        /\ holder = None /\ cur = None /\ nset = 0 /\ nreq = 0 /\ hist = <<>>

\* the first SetStruct of a request may be a "prior" that a second one overrides
SetPrior == /\ nset = 0 /\ nreq < MaxReq /\ src \in KVSources \ {"header"}      \* there is no struct setter for headers
            /\ \E v \in Priors : holder' = Enc(v) /\ cur' = v
            /\ nset' = 1 /\ hist' = Append(hist, [op |-> "set", v |-> cur'])
            /\ UNCHANGED <<src, split, nreq>>
SetStruct == /\ nset \in {0, 1} /\ nreq < MaxReq
             /\ \E v \in Values :
                  /\ cur' = v
                  /\ holder' = IF KeepStale /\ holder # None
                                THEN [fl \in Fields |-> IF Enc(v)[fl] = <<>> THEN holder[fl] ELSE Enc(v)[fl]]
                                ELSE Enc(v)                              \* Del + Add per field: nothing of an earlier value survives
             /\ nset' = 2 /\ hist' = Append(hist, [op |-> "set", v |-> cur'])
             /\ UNCHANGED <<src, split, nreq>>
Send == /\ nset = 2
        /\ \E m \in Modes :
             hist' = Append(hist, [op |-> "send", mode |-> m, expect |-> Dec(src, holder, split), status |-> 200,
                                   \* the statement covers splitting only for values without commas
                                   asserted |-> Representable(src, cur) /\ (~split \/ NoCommas(cur))])
        /\ holder' = None /\ cur' = None /\ nset' = 0 /\ nreq' = nreq + 1 /\ UNCHANGED <<src, split>>
Bad == /\ WithBad /\ nset = 0 /\ nreq < MaxReq
       /\ \E m \in Modes, kd \in BadKinds(src) :
            hist' = Append(hist, [op |-> "bad", mode |-> m, kind |-> kd, status |-> IF m = "auto" THEN 400 ELSE 422])
       /\ nreq' = nreq + 1 /\ UNCHANGED <<src, split, holder, cur, nset>>
Next == SetPrior \/ SetStruct \/ Send \/ Bad
Spec == Init /\ [][Next]_vars

\* ---- the law, checked on the specification itself: what arrives is what was set last, whenever splitting cannot interfere
RoundTrip == \A k \in 1..Len(hist) : (hist[k].op = "send" /\ (~split \/ src \notin KVSources \/ NoCommas(hist[k - 1].v))) => hist[k].expect = hist[k - 1].v
\* splitting only ever refines: joining the bound elements with commas gives back the elements sent
StatusByMode == \A k \in 1..Len(hist) : hist[k].op = "bad" => (hist[k].status = 400 <=> hist[k].mode = "auto")

Done == nreq = MaxReq /\ nset = 0
Emit == Done => PrintT(<<"CASE", ToJson([source |-> src, split |-> split, steps |-> hist])>>)
=============================================================================
