SPECIFICATION Spec
CONSTANTS
  Kinds = {"plain", "params", "locals", "viewbind", "redirectwith", "withinput", "flashfull", "flashpartial", "flashtrunc", "bindquery", "bindauto", "resphdr", "baseurl", "error", "notallowed"}
  Probes = {"plain", "params", "flashpartial", "flashshort", "bindbad"}
  MaxHist = 2
  ResetFields = {"params", "locals", "viewbind", "bind", "redirect", "resphdr", "route", "baseuri"}
INVARIANT NoForeignData
