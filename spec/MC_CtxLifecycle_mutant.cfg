SPECIFICATION Spec
CONSTANTS
  Kinds = {"plain", "params", "locals", "viewbind", "redirectwith", "withinput", "flashfull", "flashpartial", "flashtrunc", "bindquery", "bindauto", "resphdr", "baseurl", "error", "notallowed", "sendfilemaxage", "optparam", "viewrender", "localsrender", "jsonp"}
  Probes = {"plain", "params", "flashpartial", "flashshort", "bindbad", "star", "optparam", "sendfile", "rendernil", "jsonp"}
  MaxHist = 2
  ResetFields = {"params", "locals", "viewbind", "bind", "redirect", "resphdr", "route", "baseuri", "renderbind", "respbody"}
INVARIANT NoForeignData
