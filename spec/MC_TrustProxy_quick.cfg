SPECIFICATION Spec
CONSTANTS
  Scope = "quick"
INVARIANT Emit
INVARIANT NonInterference
INVARIANT SecureIffHttps
INVARIANT ValidatedIPIsAnAddress
