------------------------------ MODULE Session ------------------------------
(***************************************************************************
 C15 -- sessions: a handler sees exactly the data last saved for the session id its
 request presents if that session is unexpired (idle and absolute timeout) and not
 destroyed; otherwise an empty fresh session under a SERVER-generated id.  An id the
 server did not issue is never adopted.  After Destroy / Regenerate / Reset the previous
 id yields nothing.  Data of different sessions never mix.  Middleware and store API alike.

 Ids are natural numbers in issue order (the harness injects a counting KeyGenerator).
 ***************************************************************************)
EXTENDS Integers, Sequences, FiniteSets, TLC, Json
CONSTANTS Idle, Abs, Vals, HistDepth, MaxIds,
          Ops, Modes      \* which operations / modes a configuration generates (focused configurations keep one session alive across its deadlines)
Keys == {"k1", "k2"}
NoData == [k \in Keys |-> ""]
VARIABLES clock, store, next, req, hist,
          mode    \* "middleware": the session is saved automatically when the request ends (an explicit Save does nothing);
                  \* "store": the handler works with Store.Get / Session.Save itself and nothing is saved automatically
vars == <<clock, store, next, req, hist, mode>>
\* store: id -> [data, dl (idle deadline), abs (absolute deadline)] ; ids 1..MaxIds, 0 entries are absent
Absent == [data |-> NoData, dl |-> 0, abs |-> 0]
NoReq == [active |-> FALSE, id |-> 0, data |-> NoData, abs |-> 0, fresh |-> FALSE, destroyed |-> FALSE]
Live(i) == i \in 1..MaxIds /\ store[i].dl # 0 /\ store[i].dl > clock
E(op, a, k, v) == [op |-> op, a |-> a, k |-> k, v |-> v, id |-> req.id, fresh |-> req.fresh, d1 |-> req.data["k1"], d2 |-> req.data["k2"], n |-> 0]

Init == clock = 0 /\ store = [i \in 1..MaxIds |-> Absent] /\ next = 1 /\ req = NoReq /\ hist = <<>> /\ mode \in Modes

\* a request arrives presenting: 0 = nothing, i in 1..next-1 = an id the server issued at some point (live, stale or destroyed),
\* -1 = a forged id the server never issued
Begin(p) ==
  /\ ~req.active /\ next <= MaxIds
  /\ LET found == p > 0 /\ Live(p)
         absExpired == found /\ Abs > 0 /\ store[p].abs # 0 /\ clock > store[p].abs
         r == IF found /\ ~absExpired
              THEN [active |-> TRUE, id |-> p, data |-> store[p].data, abs |-> store[p].abs, fresh |-> FALSE, destroyed |-> FALSE]
              ELSE [active |-> TRUE, id |-> next, data |-> NoData, abs |-> (IF Abs > 0 THEN clock + Abs ELSE 0), fresh |-> TRUE, destroyed |-> FALSE]
     IN /\ req' = r
        /\ next' = IF r.fresh THEN next + 1 ELSE next
        \* a session past its absolute deadline is removed when it is presented
        /\ store' = IF absExpired THEN [store EXCEPT ![p] = Absent] ELSE store
        /\ hist' = Append(hist, [op |-> "begin", a |-> p, k |-> "", v |-> "", id |-> r.id, fresh |-> r.fresh, d1 |-> r.data["k1"], d2 |-> r.data["k2"], n |-> 0])
  /\ UNCHANGED clock

\* (a handler may go on writing to a session it has destroyed, e.g. a farewell notice after logout: nothing of it is kept)
Set(k, v) == /\ req.active /\ req' = IF req.destroyed THEN req ELSE [req EXCEPT !.data[k] = v]
             /\ hist' = Append(hist, E("set", 0, k, v)) /\ UNCHANGED <<clock, store, next>>
Del(k) == /\ req.active /\ req' = IF req.destroyed THEN req ELSE [req EXCEPT !.data[k] = ""]
          /\ hist' = Append(hist, E("del", 0, k, "")) /\ UNCHANGED <<clock, store, next>>
\* store mode: the handler (or a second middleware of the chain) asks the store again for the session of a request that presented
\* a live id, and goes on with that object: it shows exactly what is saved under the id (unsaved changes of the first object are
\* not in it) and nothing else changes -- in particular not the absolute deadline.  (What a second Get yields for a session that
\* was created or rotated in this very request is not described by the statement and is not modelled.)
ReGet == /\ mode = "store" /\ req.active /\ ~req.destroyed /\ ~req.fresh /\ Live(req.id)
         /\ req' = [req EXCEPT !.data = store[req.id].data, !.abs = store[req.id].abs]
         /\ hist' = Append(hist, [E("reget", 0, "", "") EXCEPT !.d1 = req'.data["k1"], !.d2 = req'.data["k2"]])
         /\ UNCHANGED <<clock, store, next>>
Destroy == /\ req.active /\ ~req.destroyed
           /\ store' = [store EXCEPT ![req.id] = Absent]
           /\ req' = [req EXCEPT !.destroyed = TRUE, !.data = NoData]
           /\ hist' = Append(hist, E("destroy", 0, "", "")) /\ UNCHANGED <<clock, next>>
\* new id, same data (and the same absolute deadline: it is the same session under a new name)
Regenerate == /\ req.active /\ ~req.destroyed /\ next <= MaxIds
              /\ store' = [store EXCEPT ![req.id] = Absent]
              /\ req' = [req EXCEPT !.id = next, !.fresh = TRUE]
              /\ next' = next + 1
              /\ hist' = Append(hist, [E("regenerate", 0, "", "") EXCEPT !.id = next, !.fresh = TRUE]) /\ UNCHANGED clock
\* new id, no data: a new session
Reset == /\ req.active /\ ~req.destroyed /\ next <= MaxIds
         /\ store' = [store EXCEPT ![req.id] = Absent]
         /\ req' = [req EXCEPT !.id = next, !.fresh = TRUE, !.data = NoData, !.abs = (IF Abs > 0 THEN clock + Abs ELSE 0)]
         /\ next' = next + 1
         /\ hist' = Append(hist, [E("reset", 0, "", "") EXCEPT !.id = next, !.fresh = TRUE, !.d1 = "", !.d2 = ""]) /\ UNCHANGED clock
Saved == [data |-> req.data, dl |-> clock + Idle, abs |-> req.abs]
\* Session.Save(): writes the session through (store mode); behind the middleware it is deferred to the end of the request
Save == /\ req.active /\ ~req.destroyed
        /\ store' = IF mode = "store" THEN [store EXCEPT ![req.id] = Saved] ELSE store
        /\ hist' = Append(hist, E("save", 0, "", "")) /\ UNCHANGED <<clock, next, req>>
\* the request ends: behind the middleware the session is saved (unless destroyed) and the id goes back to the client
End == /\ req.active
       /\ store' = IF req.destroyed \/ mode = "store" THEN store ELSE [store EXCEPT ![req.id] = Saved]
       /\ hist' = Append(hist, [E("end", 0, "", "") EXCEPT !.n = IF req.destroyed \/ mode = "store" THEN 0 ELSE req.id])
       /\ req' = NoReq /\ UNCHANGED <<clock, next>>
\* store API, between requests
GetByID(i) == /\ ~req.active
              /\ LET ok == Live(i) /\ ~(Abs > 0 /\ store[i].abs # 0 /\ clock > store[i].abs) IN
                 /\ hist' = Append(hist, [op |-> "getbyid", a |-> i, k |-> "", v |-> "", id |-> (IF ok THEN i ELSE 0), fresh |-> FALSE,
                                          d1 |-> (IF ok THEN store[i].data["k1"] ELSE ""), d2 |-> (IF ok THEN store[i].data["k2"] ELSE ""), n |-> 0])
                 /\ store' = IF Live(i) /\ ~ok THEN [store EXCEPT ![i] = Absent] ELSE store
              /\ UNCHANGED <<clock, next, req>>
\* store API, between requests (a background task): the session is obtained by its id, a value is written, it is saved and released.
\* Saving it is a use of the session like any other: the idle timeout runs from now, the absolute deadline stays
ByIDSave(i, k, v) ==
  /\ ~req.active
  /\ LET ok == Live(i) /\ ~(Abs > 0 /\ store[i].abs # 0 /\ clock > store[i].abs)
         nd == IF ok THEN [store[i].data EXCEPT ![k] = v] ELSE NoData
     IN /\ hist' = Append(hist, [op |-> "byidsave", a |-> i, k |-> k, v |-> v, id |-> (IF ok THEN i ELSE 0), fresh |-> FALSE,
                                 d1 |-> nd["k1"], d2 |-> nd["k2"], n |-> 0])
        /\ store' = IF ok THEN [store EXCEPT ![i] = [data |-> nd, dl |-> clock + Idle, abs |-> store[i].abs]]
                    ELSE IF Live(i) THEN [store EXCEPT ![i] = Absent] ELSE store
  /\ UNCHANGED <<clock, next, req>>
StoreDelete(i) == /\ ~req.active /\ store' = [store EXCEPT ![i] = Absent]
                  /\ hist' = Append(hist, [op |-> "storedelete", a |-> i, k |-> "", v |-> "", id |-> 0, fresh |-> FALSE, d1 |-> "", d2 |-> "", n |-> 0])
                  /\ UNCHANGED <<clock, next, req>>
Tick(d) == /\ ~req.active /\ clock' = clock + d
           /\ hist' = Append(hist, [op |-> "tick", a |-> 0, k |-> "", v |-> "", id |-> 0, fresh |-> FALSE, d1 |-> "", d2 |-> "", n |-> d])
           /\ UNCHANGED <<store, next, req>>

On(o) == o \in Ops
Next == /\ UNCHANGED mode
        /\ \/ \E p \in -1..(next - 1) : On("begin") /\ (On("foreign") \/ p = next - 1 \/ (p = 0 /\ next = 1)) /\ Begin(p)
           \/ \E k \in Keys, v \in Vals : On("set") /\ Set(k, v)
           \/ \E k \in Keys : On("del") /\ Del(k)
           \/ (On("destroy") /\ Destroy) \/ (On("regenerate") /\ Regenerate) \/ (On("reset") /\ Reset)
           \/ (On("save") /\ Save) \/ End \/ (On("reget") /\ ReGet)
           \/ \E i \in 1..(next - 1) : (On("getbyid") /\ GetByID(i)) \/ (On("storedelete") /\ StoreDelete(i))
           \/ \E i \in 1..(next - 1), k \in Keys, v \in Vals : On("byidsave") /\ ByIDSave(i, k, v)
           \* even ticks, odd timeouts: no request lands exactly on a deadline.  Without "freeticks" time passes only in single
           \* steps of 2 between requests, so that a session a client keeps using never idles out and meets its absolute deadline
           \/ \E d \in {2, 4} : (On("freeticks") \/ (d = 2 /\ hist # <<>> /\ hist[Len(hist)].op = "end")) /\ Tick(d)
Spec == Init /\ [][Next]_vars

\* design-level properties
NeverAdoptForeignId == req.active => req.id \in 1..(next - 1)
FreshMeansNew == \A i \in 1..Len(hist) : (hist[i].op = "begin" /\ hist[i].a = -1) => hist[i].fresh
NoLiveSessionPastAbs == TRUE
EmitHist == (TLCGet("level") = HistDepth) => PrintT(<<"HIST", ToJson([hist |-> hist, mode |-> mode])>>)
=============================================================================
