---------------------------- MODULE CtxLifecycle ----------------------------
(***************************************************************************
 C05 -- requests are isolated although contexts are pooled.

 Black box: the server is memoryless -- what a probe request observes after any history
 equals what it observes on a fresh application.  White box (design check and
 documentation of the reset discipline): a pooled context whose fields each hold the SET
 OF REQUEST IDS whose data they contain; Acquire/Release reset the fields in ResetFields;
 NoForeignData: no field a handler can read holds data of another request.
 ***************************************************************************)
EXTENDS Naturals, Sequences, FiniteSets, TLC, Json
CONSTANTS Kinds, Probes, MaxHist, ResetFields
Fields == {"params", "locals", "viewbind", "flash", "bind", "redirect", "resphdr", "route", "baseuri", "renderbind", "respbody"}
\* which context fields a request of a kind writes; "flashpartial"/"flashtrunc" decode INTO the slots that are there
\* ("sendfilemaxage" fills the application's SendFile handler store, which is keyed by the call's configuration and is not a
\* context field: the probe "sendfile" uses another configuration and must not see its Cache-Control)
\* ("viewrender" / "localsrender" render a view WITHOUT bind data of their own: the map Render then fills from the request's view
\* bindings / locals is "renderbind" -- it belongs to the call.  "jsonp" builds its response in a buffer, "respbody", that must stay the
\* request's own until the response is written, also while a middleware is still working after the handler returned.)
Writes(k) == CASE k \in {"params", "optparam"} -> {"params", "route"} [] k = "locals" -> {"locals"} [] k = "viewbind" -> {"viewbind"}
               [] k = "viewrender" -> {"viewbind", "renderbind"} [] k = "localsrender" -> {"locals", "renderbind"} [] k = "jsonp" -> {"params", "route", "respbody"}
               [] k = "redirectwith" -> {"redirect", "resphdr"} [] k = "withinput" -> {"redirect", "bind", "resphdr"}
               [] k \in {"flashfull", "flashpartial", "flashtrunc"} -> {"flash"} [] k \in {"bindquery", "bindauto"} -> {"bind"}
               [] k = "resphdr" -> {"resphdr"} [] k = "baseurl" -> {"baseuri"} [] OTHER -> {"route"}
VARIABLES ctx, cur, hist, phase, probe
vars == <<ctx, cur, hist, phase, probe>>
Init == ctx = [f \in Fields |-> {}] /\ cur = 0 /\ hist = <<>> /\ phase = "idle" /\ probe = ""

\* the pooled context is handed to the next request: fields in ResetFields are emptied (Acquire + the preceding Release)
Serve(k) == /\ phase = "idle" /\ Len(hist) < MaxHist
            /\ cur' = cur + 1
            /\ ctx' = [f \in Fields |-> IF f \in Writes(k) THEN (IF f \in ResetFields THEN {} ELSE ctx[f]) \cup {cur + 1}
                                        ELSE IF f \in ResetFields THEN {} ELSE ctx[f]]
            /\ hist' = Append(hist, k) /\ UNCHANGED <<phase, probe>>
Probe(p) == /\ phase = "idle" /\ cur' = cur + 1
            /\ ctx' = [f \in Fields |-> IF f \in ResetFields THEN {} ELSE ctx[f]]
            /\ probe' = p /\ phase' = "probed" /\ UNCHANGED hist
Next == (\E k \in Kinds : Serve(k)) \/ (\E p \in Probes : Probe(p))
Spec == Init /\ [][Next]_vars

\* nothing a handler can read carries another request's data
NoForeignData == \A f \in Fields : ctx[f] \subseteq {cur}
Emit == phase = "probed" => PrintT(<<"CASE", ToJson([hist |-> hist, probe |-> probe])>>)
=============================================================================
