SPECIFICATION Spec
CONSTANTS
  Hosts = {"a.test", "b.test"}
  Paths <- D_RootPaths
  Names = {"n1", "n2"}
  Values = {"v1", "v2"}
  HistDepth = 14
INVARIANT EmitHist
INVARIANT OnePerIdentity
