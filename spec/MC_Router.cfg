SPECIFICATION Spec
CONSTANTS
  Pats <- D_Pats
  Paths <- D_Paths
  MatchSet <- D_MatchSet
  Methods <- D_Methods
  RouteMethods <- D_RouteMethods
  MaxRoutes <- D_MaxRoutes
  RwTargets <- D_RwTargets
  OvTargets <- D_OvTargets
  EpBehs <- D_EpBehs
  UseBehs <- D_UseBehs
  MultiKinds <- D_MultiKinds
  Vias <- D_Vias
  CfgFlags <- D_CfgFlags
INVARIANT NormRespected
INVARIANT Emit
INVARIANT RanInRegistrationOrder
INVARIANT RanOnlyApplicable
INVARIANT ReplyOnlyWhenDone
INVARIANT AllowNeverCurrent
INVARIANT RanOnce
