------------------------------ MODULE Immutable ------------------------------
(***************************************************************************
 C06 -- with the Immutable option every string or byte slice a handler obtains from the
 context keeps its content after the handler returns, however many later requests reuse
 the same context and connection buffers; without the option the values are correct and
 stable at least until the handler returns.

 Shapes include "unmatched": a request no route matches is handled by the application's error
 handler, a handler like any other (accessor "routepath": the path Route() reports for it).
 The Churn step includes SendFile, which points the request at the file for a moment.

 Aliasing model: buffers are cells with a version number that every reuse bumps; an
 accessor either COPIES (the captured value is its own) or ALIASES a cell (the captured
 value is whatever the cell holds now).
 ***************************************************************************)
EXTENDS Naturals, Sequences, FiniteSets, TLC, Json
CONSTANTS Accessors, Shapes, ReuseKinds, MaxReuse, Aliasing,   \* Aliasing: accessors that hand out buffer memory although Immutable is on
          Scratch         \* accessors that hand out memory of a pooled scratch buffer which is already back in its pool
VARIABLES immutable, shape, version, captured, reuses, phase,
          churned         \* the handler went on working after it took the values (Links, Attachment, String ... use pooled scratch buffers)
vars == <<immutable, shape, version, captured, reuses, phase, churned>>
Init == /\ immutable \in BOOLEAN /\ shape \in Shapes /\ version = 1 /\ captured = [a \in Accessors |-> 0] /\ reuses = <<>> /\ phase = "handler"
        /\ churned = FALSE
\* the handler reads every accessor: a copying accessor pins the current version, an aliasing one tracks the cell (0 = live view)
Capture == /\ phase = "handler"
           /\ captured' = [a \in Accessors |-> IF immutable /\ a \notin Aliasing THEN version ELSE 0]
           /\ phase' = "working" /\ UNCHANGED <<immutable, shape, version, reuses, churned>>
\* still inside the handler: other helpers take, fill and return pooled scratch buffers; then the handler returns
Churn == /\ phase = "working" /\ churned' = TRUE /\ phase' = "returned" /\ UNCHANGED <<immutable, shape, version, captured, reuses>>
\* a later request recycles the context and the connection buffers
Reuse(k) == /\ phase = "returned" /\ Len(reuses) < MaxReuse
            /\ version' = version + 1 /\ reuses' = Append(reuses, k) /\ UNCHANGED <<immutable, shape, captured, phase, churned>>
Done == phase = "returned" /\ phase' = "checked" /\ UNCHANGED <<immutable, shape, version, captured, reuses, churned>>
Next == Capture \/ Churn \/ (\E k \in ReuseKinds : Reuse(k)) \/ Done
Spec == Init /\ [][Next]_vars
Live(a) == IF captured[a] = 0 THEN version ELSE captured[a]
\* what was captured under Immutable still reads as it did (version 1 is the capturing request)
StaysValid == (immutable /\ phase \notin {"handler", "working"}) => \A a \in Accessors : Live(a) = 1
\* with or without the option: what the handler took is still what it reads when it returns
StableInHandler == (phase = "returned" /\ reuses = <<>>) => \A a \in Accessors : ~(churned /\ a \in Scratch)
Emit == phase = "checked" => PrintT(<<"CASE", ToJson([immutable |-> immutable, shape |-> shape, reuses |-> reuses])>>)
=============================================================================
