------------------------------ MODULE Immutable ------------------------------
(***************************************************************************
 C06 -- with the Immutable option every string or byte slice a handler obtains from the
 context keeps its content after the handler returns, however many later requests reuse
 the same context and connection buffers; without the option the values are correct and
 stable at least until the handler returns.

 Aliasing model: buffers are cells with a version number that every reuse bumps; an
 accessor either COPIES (the captured value is its own) or ALIASES a cell (the captured
 value is whatever the cell holds now).
 ***************************************************************************)
EXTENDS Naturals, Sequences, FiniteSets, TLC, Json
CONSTANTS Accessors, Shapes, ReuseKinds, MaxReuse, Aliasing   \* Aliasing: accessors that hand out buffer memory although Immutable is on
VARIABLES immutable, shape, version, captured, reuses, phase
vars == <<immutable, shape, version, captured, reuses, phase>>
Init == /\ immutable \in BOOLEAN /\ shape \in Shapes /\ version = 1 /\ captured = [a \in Accessors |-> 0] /\ reuses = <<>> /\ phase = "handler"
\* the handler reads every accessor: a copying accessor pins the current version, an aliasing one tracks the cell (0 = live view)
Capture == /\ phase = "handler"
           /\ captured' = [a \in Accessors |-> IF immutable /\ a \notin Aliasing THEN version ELSE 0]
           /\ phase' = "returned" /\ UNCHANGED <<immutable, shape, version, reuses>>
\* a later request recycles the context and the connection buffers
Reuse(k) == /\ phase = "returned" /\ Len(reuses) < MaxReuse
            /\ version' = version + 1 /\ reuses' = Append(reuses, k) /\ UNCHANGED <<immutable, shape, captured, phase>>
Done == phase = "returned" /\ phase' = "checked" /\ UNCHANGED <<immutable, shape, version, captured, reuses>>
Next == Capture \/ (\E k \in ReuseKinds : Reuse(k)) \/ Done
Spec == Init /\ [][Next]_vars
Live(a) == IF captured[a] = 0 THEN version ELSE captured[a]
\* what was captured under Immutable still reads as it did (version 1 is the capturing request)
StaysValid == (immutable /\ phase # "handler") => \A a \in Accessors : Live(a) = 1
Emit == phase = "checked" => PrintT(<<"CASE", ToJson([immutable |-> immutable, shape |-> shape, reuses |-> reuses])>>)
=============================================================================
