SPECIFICATION Spec
CONSTANTS
  Vals = {"plain", "esc", "empty"}
INVARIANT Emit
