---- MODULE MC_Mount ----
EXTENDS Mount
CONSTANT Scope
D_Prefixes == IF Scope = "quick" THEN { <<"/">>, <<"/","a","p","i">>, <<"/","a","p","i","/">>, <<"/",":","t">> }
              ELSE { <<"/">>, <<"/","a","p","i">>, <<"/","a","p","i","/">>, <<"/",":","t">>, <<"/","v","1">> }
D_RoutePaths == IF Scope = "quick" THEN { <<"/">>, <<"/","U","p">>, <<"/",":","i","d">>, <<>> }
                ELSE { <<"/">>, <<"/","x">>, <<"/","U","p">>, <<"/",":","i","d">>, <<"/","*">>, <<>> }
====
