----------------------------- MODULE CookieJar -----------------------------
(***************************************************************************
 C18 (cookie jar) -- the jar returns for a URL exactly the unexpired cookies stored for
 that host whose path is a prefix of the request path, each once: never a cookie of
 another host, of a non-matching path, or one the server expired.

 jar[host] is a set of [name, path, value, exp] (exp = 0: no expiry, else the second at
 which it is gone); a cookie is identified by (host, name, path).  Hosts are compared
 without their port (cookies are not isolated by port).
 ***************************************************************************)
EXTENDS Integers, Sequences, FiniteSets, TLC, Json

CONSTANTS Hosts, Paths, Names, Values, HistDepth
\* URL hosts may carry a port; HostOf strips it
HostOf(h) == CASE h = "a.test:8080" -> "a.test" [] h = "[2001:db8::1]:8080" -> "[2001:db8::1]" [] OTHER -> h
PlainHosts == {HostOf(h) : h \in Hosts}

D_Paths == { <<"/">>, <<"/","a">>, <<"/","a","p","i">>, <<"/","a","p","i","/","x">> }
D_RootPaths == { <<"/">> }
VARIABLES clock, jar, hist
vars == <<clock, jar, hist>>

IsPrefix(p, s) == Len(p) <= Len(s) /\ SubSeq(s, 1, Len(p)) = p
\* a cookie path (character sequence; <<>> = no Path attribute) matches a request path it is a prefix of
PathOK(cp, rp) == cp = <<>> \/ cp = <<"/">> \/ IsPrefix(cp, rp)
Alive(c) == c.exp = 0 \/ c.exp > clock
Visible(h, rp) == {c \in jar[HostOf(h)] : Alive(c) /\ PathOK(c.path, rp)}
\* what the caller sees: name/value pairs (a set: each cookie once)
Pairs(S) == {<<c.name, c.value>> : c \in S}

Init == clock = 0 /\ jar = [h \in PlainHosts |-> {}] /\ hist = <<>>

Upsert(S, c) == {d \in S : ~(d.name = c.name /\ d.path = c.path)} \cup {c}
Remove(S, c) == {d \in S : ~(d.name = c.name /\ d.path = c.path)}
\* a cookie as it arrives: ttl = 0 unlimited, ttl > 0 lives that many seconds, ttl < 0 already expired (a deletion)
Apply(S, n, p, v, ttl) == IF ttl < 0 THEN Remove(S, [name |-> n, path |-> p])
                          ELSE Upsert(S, [name |-> n, path |-> p, value |-> v, exp |-> IF ttl = 0 THEN 0 ELSE clock + ttl])

\* every cookie carries an explicit Path attribute (the default-path rule for cookies without one is not modelled)
Cookie == [name : Names, path : Paths, value : Values, ttl : {0, 2, -1}]
Ev(op, h, rp, cs, seen) == [op |-> op, host |-> h, path |-> rp, cookies |-> cs, seen |-> seen, d |-> 0]

\* jar.Set(uri, cookie)
SetCookie(h, c) == /\ jar' = [jar EXCEPT ![HostOf(h)] = Apply(@, c.name, c.path, c.value, c.ttl)]
                   /\ hist' = Append(hist, Ev("set", h, <<>>, <<c>>, {})) /\ UNCHANGED clock
\* jar.Get(uri)
Get(h, rp) == /\ hist' = Append(hist, Ev("get", h, rp, <<>>, Pairs(Visible(h, rp)))) /\ UNCHANGED <<clock, jar>>
\* a request through the client: the Cookie header carries what is visible NOW, then the response's Set-Cookie lines are stored
Exchange(h, rp, cs) ==
  /\ LET RECURSIVE app(_, _) app(S, i) == IF i > Len(cs) THEN S ELSE app(Apply(S, cs[i].name, cs[i].path, cs[i].value, cs[i].ttl), i + 1)
     IN jar' = [jar EXCEPT ![HostOf(h)] = app(@, 1)]
  /\ hist' = Append(hist, Ev("exchange", h, rp, cs, Pairs(Visible(h, rp)))) /\ UNCHANGED clock
Tick(d) == /\ clock' = clock + d /\ hist' = Append(hist, [op |-> "tick", host |-> "", path |-> <<>>, cookies |-> <<>>, seen |-> {}, d |-> d])
           /\ UNCHANGED jar

Next == \/ \E h \in Hosts, c \in Cookie : SetCookie(h, c)
        \/ \E h \in Hosts, rp \in Paths : Get(h, rp)
        \/ \E h \in Hosts, rp \in Paths : \E n \in 0..2 : \E cs \in [1..n -> Cookie] : Exchange(h, rp, cs)
        \/ \E d \in 1..3 : Tick(d)
Spec == Init /\ [][Next]_vars

\* design-level properties of the abstract jar
OnePerIdentity == \A h \in PlainHosts : \A c, d \in jar[h] : (c.name = d.name /\ c.path = d.path) => c = d
NoForeignHost == \A i \in 1..Len(hist) : hist[i].op \in {"get", "exchange"} =>
                    \A pr \in hist[i].seen : \E n \in Names, v \in Values : pr = <<n, v>>
EmitHist == (TLCGet("level") = HistDepth) => PrintT(<<"HIST", ToJson([hist |-> hist])>>)
=============================================================================
