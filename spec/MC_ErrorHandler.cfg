SPECIFICATION Spec
CONSTANTS
  AppPool <- D_AppPool
  MaxApps = 3
  ErrKinds = {"fiber418", "wrapped418", "plain", "notfound"}
  Tails <- D_Tails
INVARIANT Emit
INVARIANT ExactlyOnce
INVARIANT ChosenIsScoped
INVARIANT ChosenIsInnermost
