---- MODULE MC_ErrorHandler ----
EXTENDS ErrorHandler
A(id, full, parent, local) == [id |-> id, full |-> full, parent |-> parent, local |-> local]
api == <<"/","a","p","i">>
D_AppPool == { A(1, api, 0, api),
               A(2, <<"/","a","p","i","-","v","2">>, 0, <<"/","a","p","i","-","v","2">>),
               A(3, api \o <<"/","v","1">>, 1, <<"/","v","1">>),            \* nested inside app 1
               A(4, <<"/","a">>, 0, <<"/","a">>),
               A(5, <<"/","a","p">>, 0, <<"/","a","p">>),
               A(6, api \o <<"/","v","1">> \o <<"/","d">>, 3, <<"/","d">>),  \* three levels deep
               A(7, <<"/","a","/","b">>, 0, <<"/","a","/","b">>),           \* two-segment prefix mounted at top level
               A(8, <<"/","A","d","m">>, 0, <<"/","A","d","m">>),           \* capitals in the prefix; requests spell it the same way
               A(9, <<"/","t","s">>, 0, <<"/","t","s","/">>) }              \* written with a trailing slash at the mount call: the same prefix
D_Tails == { <<"/","b","o","o","m">>, <<"/","n","o","p","e">>, <<>>, <<"x","/","b","o","o","m">>, <<"/","v","1","/","b","o","o","m">> }
====
