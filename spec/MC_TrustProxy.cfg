SPECIFICATION Spec
CONSTANTS
  Scope = "full"
INVARIANT Emit
INVARIANT NonInterference
INVARIANT SecureIffHttps
INVARIANT ValidatedIPIsAnAddress
