----------------------------- MODULE MemoryLock -----------------------------
(* The bundled idempotency.MemoryLock at the grain of its two mutexes (for ONE key; keys are independent):
   Lock():   l.mu.Lock(); look up / create the counted lock; locked++; l.mu.Unlock(); lock.mu.Lock()
   Unlock(): l.mu.Lock(); look up; l.mu.Unlock(); lock.mu.Unlock(); l.mu.Lock(); locked--; if <= 0 delete; l.mu.Unlock()
   Lock objects are identified by an allocation counter so that delete-and-recreate is visible. *)
EXTENDS Naturals, FiniteSets
CONSTANTS Procs, Rounds, MaxObj
VARIABLES lmu, keys, locked, held, nextId, my, pc, rounds
vars == <<lmu, keys, locked, held, nextId, my, pc, rounds>>
Objs == 1..MaxObj
Init == /\ lmu = 0 /\ keys = 0 /\ locked = [o \in Objs |-> 0] /\ held = [o \in Objs |-> 0] /\ nextId = 1
        /\ my = [p \in Procs |-> 0] /\ pc = [p \in Procs |-> "idle"] /\ rounds = [p \in Procs |-> 0]
L1(p) == /\ pc[p] = "idle" /\ rounds[p] < Rounds /\ lmu = 0 /\ lmu' = p /\ pc' = [pc EXCEPT ![p] = "L2"]
         /\ UNCHANGED <<keys, locked, held, nextId, my, rounds>>
L2(p) == /\ pc[p] = "L2"
         /\ IF keys = 0 THEN /\ nextId <= MaxObj /\ keys' = nextId /\ nextId' = nextId + 1 /\ my' = [my EXCEPT ![p] = nextId]
                             /\ locked' = [locked EXCEPT ![nextId] = @ + 1]
                        ELSE /\ my' = [my EXCEPT ![p] = keys] /\ locked' = [locked EXCEPT ![keys] = @ + 1] /\ UNCHANGED <<keys, nextId>>
         /\ lmu' = 0 /\ pc' = [pc EXCEPT ![p] = "L3"] /\ UNCHANGED <<held, rounds>>
L3(p) == /\ pc[p] = "L3" /\ held[my[p]] = 0 /\ held' = [held EXCEPT ![my[p]] = p] /\ pc' = [pc EXCEPT ![p] = "crit"]
         /\ UNCHANGED <<lmu, keys, locked, nextId, my, rounds>>
U1(p) == /\ pc[p] = "crit" /\ lmu = 0 /\ lmu' = p /\ pc' = [pc EXCEPT ![p] = "U2"] /\ UNCHANGED <<keys, locked, held, nextId, my, rounds>>
U2(p) == /\ pc[p] = "U2" /\ lmu' = 0
         /\ IF keys = 0 THEN pc' = [pc EXCEPT ![p] = "leaked"] /\ UNCHANGED my      \* unknown key: returns WITHOUT unlocking
                        ELSE pc' = [pc EXCEPT ![p] = "U3"] /\ my' = [my EXCEPT ![p] = keys]   \* unlocks whatever lock is in the map NOW
         /\ UNCHANGED <<keys, locked, held, nextId, rounds>>
U3(p) == /\ pc[p] = "U3" /\ held' = [held EXCEPT ![my[p]] = 0] /\ pc' = [pc EXCEPT ![p] = "U4"] /\ UNCHANGED <<lmu, keys, locked, nextId, my, rounds>>
U4(p) == /\ pc[p] = "U4" /\ lmu = 0 /\ lmu' = p /\ pc' = [pc EXCEPT ![p] = "U5"] /\ UNCHANGED <<keys, locked, held, nextId, my, rounds>>
U5(p) == /\ pc[p] = "U5" /\ locked' = [locked EXCEPT ![my[p]] = @ - 1]
         /\ keys' = IF locked[my[p]] - 1 <= 0 THEN 0 ELSE keys
         /\ lmu' = 0 /\ pc' = [pc EXCEPT ![p] = "idle"] /\ rounds' = [rounds EXCEPT ![p] = @ + 1] /\ UNCHANGED <<held, nextId, my>>
Next == \E p \in Procs : L1(p) \/ L2(p) \/ L3(p) \/ U1(p) \/ U2(p) \/ U3(p) \/ U4(p) \/ U5(p)
Spec == Init /\ [][Next]_vars
Mutex == Cardinality({p \in Procs : pc[p] \in {"crit", "U2"}}) <= 1
UnlockOwn == \A p \in Procs : pc[p] = "U3" => held[my[p]] = p
NoLeak == \A p \in Procs : pc[p] # "leaked"
NoDeleteWhileWaiting == \A p \in Procs : pc[p] = "L3" => keys = my[p]
=============================================================================
