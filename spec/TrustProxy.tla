----------------------------- MODULE TrustProxy -----------------------------
(***************************************************************************
 C10 -- with TrustProxy enabled, forwarding headers affect client IP, host, hostname,
 scheme, base URL and the secure flag only when the peer is inside the configured proxy
 set (listed addresses, CIDR ranges, enabled loopback/private/link-local classes).
 With IP validation the reported IP is always a valid address; secure <=> scheme = https.
 ***************************************************************************)
EXTENDS Naturals, Sequences, FiniteSets, TLC, Json
CONSTANT Scope
\* peers: address as the connection reports it, and the classes it belongs to
Peer(a, cls) == [addr |-> a, cls |-> cls]
Peers == { Peer("127.0.0.1", {"loopback"}), Peer("::1", {"loopback"}), Peer("10.0.0.1", {"private", "L4"}), Peer("10.9.9.9", {"private"}),
           Peer("169.254.1.1", {"linklocal"}), Peer("192.168.7.77", {"private", "C4"}), Peer("203.0.113.9", {}),
           Peer("2001:db8::1", {"L6", "W6"}), Peer("2001:db8:1::5", {"C6", "W6"}), Peer("2001:db8:ffff::9", {"W6"}), Peer("2001:db9::1", {}),
           Peer("fe80::1", {"linklocal"}) }
\* proxy list entries and the peer class each one covers ("2001:DB8::1" is a non-canonical spelling of a listed address)
Entry(txt, cov) == [txt |-> txt, cov |-> cov]
Entries == { Entry("10.0.0.1", "L4"), Entry("2001:DB8::1", "L6"), Entry("192.168.7.0/24", "C4"), Entry("2001:db8:1::/48", "C6"),
             Entry("2001:db8::/32", "W6"), Entry("10.0.0.1/32", "L4") }   \* prefix lengths that coincide with an address length of the other family
ProxySets == IF Scope = "quick" THEN {{}} \cup {{e} : e \in Entries} \cup {Entries} ELSE SUBSET Entries
ClassSets == IF Scope = "quick" THEN {{}, {"loopback"}, {"private"}, {"linklocal"}, {"loopback", "private", "linklocal"}} ELSE SUBSET {"loopback", "private", "linklocal"}
CfgAll == [trust : BOOLEAN, classes : ClassSets, proxies : ProxySets, header : {"", "X-Forwarded-For", "X-Real-Ip"}, validate : BOOLEAN]
Cfg == IF Scope = "quick" THEN {c \in CfgAll : c.header # "X-Real-Ip" /\ (~c.trust => (c.classes = {} /\ c.proxies = {})) /\ (c.classes # {} => Cardinality(c.proxies) <= 1)}
       ELSE CfgAll

\* header assignments: what the client put into the forwarding headers
\* ("zone": an IPv6 literal with a zone suffix, fe80::1%eth0 -- a zone is not part of an address; "zone-then-ip": one with free text
\* as its zone, then a valid address)
XFF == {"absent", "one", "list", "garbage", "garbage-then-ip", "zone", "zone-then-ip"}
\* (the last two carry a value other than "https": "X-Forwarded-Proto: ftp" and "X-Url-Scheme: HTTPS" -- a trusted proxy's value is
\* handed on as it is, an untrusted peer's value changes nothing)
SchemeHdr == {"absent", "X-Forwarded-Proto", "X-Forwarded-Protocol", "X-Forwarded-Ssl", "X-Url-Scheme", "X-Forwarded-Proto=ftp", "X-Url-Scheme=HTTPS"}
SchemeValue(hs) == CASE hs = "X-Forwarded-Proto=ftp" -> "ftp" [] hs = "X-Url-Scheme=HTTPS" -> "HTTPS" [] OTHER -> "https"
Hdrs == [xff : XFF, xfhost : BOOLEAN, scheme : SchemeHdr]
NoHdrs == [xff |-> "absent", xfhost |-> FALSE, scheme |-> "absent"]

VARIABLES cfg, peer, tls, hdrs, stage
vars == <<cfg, peer, tls, hdrs, stage>>

Trusted(c, p) == \/ ~c.trust                                  \* the option off: every peer counts as trusted (documented)
                 \/ c.classes \cap p.cls # {}
                 \/ \E e \in c.proxies : e.cov \in p.cls
\* the forwarded client IP named by a header assignment: "remote" = fall back to the peer address
FwdIP(c, h) == CASE h.xff = "absent" -> (IF c.validate THEN "remote" ELSE "empty")
                 [] h.xff = "one" -> "198.51.100.7"
                 [] h.xff = "list" -> (IF c.validate THEN "198.51.100.7" ELSE "raw-list")
                 [] h.xff = "garbage" -> (IF c.validate THEN "remote" ELSE "raw-garbage")
                 [] h.xff = "garbage-then-ip" -> (IF c.validate THEN "198.51.100.8" ELSE "raw-garbage-then-ip")
                 [] h.xff = "zone" -> (IF c.validate THEN "remote" ELSE "raw-zone")
                 [] h.xff = "zone-then-ip" -> (IF c.validate THEN "198.51.100.8" ELSE "raw-zone-then-ip")
\* (Out has no argument for other applications of the process: see the sibling application in the harness)
Out(c, p, t, h) ==
  LET tr == Trusted(c, p)
      scheme == IF t THEN "https" ELSE IF tr /\ h.scheme # "absent" THEN SchemeValue(h.scheme) ELSE "http"
      host == IF tr /\ h.xfhost THEN "spoof.example" ELSE "real.example"
  IN [ ip |-> IF tr /\ c.header # "" THEN FwdIP(c, h) ELSE "remote",
       host |-> host, scheme |-> scheme, secure |-> (scheme = "https"), trusted |-> tr ]

Init == stage = 0 /\ cfg \in Cfg /\ peer \in Peers /\ tls = FALSE /\ hdrs = NoHdrs
Next == stage = 0 /\ stage' = 1 /\ UNCHANGED <<cfg, peer>> /\ tls' \in BOOLEAN /\ hdrs' \in Hdrs
Spec == Init /\ [][Next]_vars

\* non-interference: for an untrusted peer no forwarding header changes any output
NonInterference == (stage = 1 /\ ~Trusted(cfg, peer)) => Out(cfg, peer, tls, hdrs) = Out(cfg, peer, tls, NoHdrs)
SecureIffHttps == stage = 1 => LET o == Out(cfg, peer, tls, hdrs) IN o.secure <=> (o.scheme = "https")
ValidatedIPIsAnAddress == (stage = 1 /\ cfg.validate) => Out(cfg, peer, tls, hdrs).ip \in {"remote", "198.51.100.7", "198.51.100.8"}
Emit == stage = 1 => PrintT(<<"CASE", ToJson([cfg |-> [cfg EXCEPT !.proxies = {e.txt : e \in cfg.proxies}], peer |-> peer.addr, tls |-> tls, hdrs |-> hdrs,
                                                out |-> Out(cfg, peer, tls, hdrs)])>>)
=============================================================================
