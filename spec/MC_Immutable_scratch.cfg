SPECIFICATION Spec
CONSTANTS
  Accessors = {"params", "path", "originalurl", "protocol", "query", "queries", "formvalue", "header", "reqheaders", "cookies", "host", "hostname", "body", "bodyraw", "ip", "baseurl", "subdomains", "method", "scheme", "ips", "rangetype", "routepath", "genericquery", "genericquerybytes", "genericparams", "bindquery", "bindform", "bindheader", "bindcookie", "binduri", "bindjson"}
  Shapes = {"get", "forwarded", "forwardedlist", "unmatched", "form", "json", "identity", "unknownenc"}
  ReuseKinds = {"same", "shorter", "longer", "otherroute", "malformed"}
  MaxReuse = 2
  Scratch = {"baseurl"}
  Aliasing = {}
INVARIANT StaysValid
INVARIANT StableInHandler
