SPECIFICATION Spec
CONSTANTS
  MaxReq = 2
  Pool = "tiny"
  WithBad = TRUE
INVARIANT RoundTrip
INVARIANT StatusByMode
INVARIANT Emit
