SPECIFICATION Spec
CONSTANTS
  MaxReq = 2
  Pool = "tiny"
  WithBad = TRUE
  KeepStale = FALSE
INVARIANT RoundTrip
INVARIANT StatusByMode
INVARIANT Emit
