SPECIFICATION Spec
CONSTANTS
  MaxReq = 3
  Pool = "tiny"
  WithBad = TRUE
  KeepStale = FALSE
INVARIANT RoundTrip
INVARIANT StatusByMode
INVARIANT Emit
