SPECIFICATION Spec
CONSTANTS
  MaxReq = 3
  Pool = "tiny"
  WithBad = TRUE
INVARIANT RoundTrip
INVARIANT StatusByMode
INVARIANT Emit
