---- MODULE MC_Limiter ----
EXTENDS Limiter, Json
CONSTANT MaxReq
\* bound the exploration: every worker serves at most MaxReq requests (counted in the history)
ReqCount(p) == Cardinality({i \in 1..Len(hist) : hist[i].ev = "req" /\ hist[i].p = p})
Bound == \A p \in Procs : ReqCount(p) + (IF pc[p] # "idle" /\ pc[p] # "done" THEN 1 ELSE 0) <= MaxReq
\* ---- history generation (forward conformance): sequential use, time passes only between requests
CONSTANT HistDepth
AllIdle == \A p \in Procs : pc[p] \in {"idle", "done"}
HistNext == \/ \E p \in Procs : \/ \E k \in Keys, mx \in Maxes, hs \in Statuses : Start(p, k, mx, hs)
                                \/ Lock(p) \/ Get(p) \/ Set(p) \/ Unlock(p) \/ Reject(p) \/ Handler(p)
                                \/ Lock2(p) \/ Get2(p) \/ Set2(p) \/ Skip2(p) \/ Unlock2(p) \/ Reuse(p)
            \/ (AllIdle /\ \E d \in 1..(Exp + 1) : Tick(d))
HistSpec == Init /\ [][HistNext]_vars
EmitHist == (TLCGet("level") = HistDepth) => PrintT(<<"HIST", ToJson([hist |-> hist])>>)
====
