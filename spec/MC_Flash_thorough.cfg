SPECIFICATION Spec
CONSTANTS
  KeyClasses = {"plain", "special", "unicode"}
  ValClasses = {"plain", "special", "unicode", "empty", "long"}
  Levels = {0, 10, 65, 200}
  MaxMsgs = 3
  HostileKinds = {"truncated", "announce32", "announce16", "missingfields", "wrongtypes", "trailing", "notmsgpack", "empty"}
INVARIANT Emit
INVARIANT DeliveredOnce
