SPECIFICATION Spec
CONSTANTS
  Hosts = {"[2001:db8::1]", "[2001:db8::2]", "[2001:db8::1]:8080", "a.test"}
  Paths <- D_RootPaths
  Names = {"n1", "n2"}
  Values = {"v1", "v2"}
  HistDepth = 14
INVARIANT EmitHist
INVARIANT OnePerIdentity
