------------------------------- MODULE Router -------------------------------
(***************************************************************************
 C01 -- dispatch = registration-order first match; the lookup index is transparent.

 The specification knows nothing about buckets, hashes or cursors-as-indexes:
 a request walks the registrations in order, runs those that INDIVIDUALLY match
 (relation MatchSet, measured on the real code: one app holding only that route),
 each only if its predecessor called Next.  Path rewrites and method overrides by a
 middleware change what "matches" means for the REST of the chain, never the position.

 One deliberate, documented deviation is modelled instead of idealised away: two
 registrations with the same path and kind made one right after the other are ONE
 route with a longer handler list (that is what app.Get(p, h1, h2) means), and
 Next() inside a route goes to its next handler without re-matching.
 ***************************************************************************)
EXTENDS Naturals, Sequences, FiniteSets, TLC, Json

CONSTANTS Pats,        \* pattern texts (strings)
          Paths,       \* request paths (strings)
          MatchSet,    \* subset of Pats x {"use","ep"} x Paths : the individual match relation
          Methods,     \* request methods, e.g. {"GET","POST","PUT"}
          RouteMethods,\* methods routes are registered for, subset of Methods
          MaxRoutes,
          RwTargets, OvTargets,    \* rewrite / override targets used by middleware behaviours
          EpBehs, UseBehs,
          MultiKinds,              \* registrations made for several methods at once, e.g. {"GET+POST"} (app.Add([GET, POST], ...))
          CfgFlags,                \* what the application's configuration folds together: subset of {"nocase", "unesc", "nonstrict"}
          Vias                     \* how a registration is written: "app" (directly), "group" (through a Group whose prefix is the head
                                   \* of the pattern), "list" / "grouplist" (middleware only: the prefix given in a list).  The way it is
                                   \* written does NOT enter the dispatch below -- the table is what counts; the replay writes it that way

VARIABLES table,      \* sequence of registrations [kind, pat, beh, via]
          req,        \* <<method, path>> as sent
          phase,      \* "build" | "run" | "done"
          curM, curP, \* method / path as the chain currently sees them
          gpos,       \* registration index of the handler that ran last (0: none yet)
          rest,       \* registration indexes of the remaining handlers of the current (merged) route
          matchedEP, ran, status, allow
vars == <<table, req, phase, curM, curP, gpos, rest, matchedEP, ran, status, allow>>

Kinds == {"use"} \cup RouteMethods \cup MultiKinds
MethodsOf(k) == IF k = "GET+POST" THEN {"GET", "POST"} ELSE {k}
Beh(k) == IF k = "use" THEN UseBehs ELSE EpBehs
ViasOf(k) == IF k = "use" THEN Vias ELSE Vias \ {"list", "grouplist"}
RouteRec == UNION { [kind : {k}, pat : Pats, beh : Beh(k), via : ViasOf(k)] : k \in Kinds }

K(r) == IF r.kind = "use" THEN "use" ELSE "ep"
InStack(r, m) == r.kind = "use" \/ m \in MethodsOf(r.kind)
Matches(r, p) == <<r.pat, K(r), p>> \in MatchSet

\* --- duplicate merging: a registration made right after one with the same path and kind (no other registration call in
\* between) extends that route's handler list instead of adding a route; Next() inside a route runs its next handler
\* without re-matching.  Because only consecutive registrations merge, every method stack groups them the same way.
Prev(i, m) == IF i > 1 /\ InStack(table[i - 1], m) THEN i - 1 ELSE 0
Merged(i, m) == LET j == Prev(i, m) IN
                j # 0 /\ table[j].pat = table[i].pat /\ (table[j].kind = "use") = (table[i].kind = "use")
\* group heads of m's stack and the members of a head's group
Heads(m) == {i \in 1..Len(table) : InStack(table[i], m) /\ ~Merged(i, m)}
RECURSIVE HeadOf(_, _)
HeadOf(i, m) == IF Merged(i, m) THEN HeadOf(Prev(i, m), m) ELSE i
Members(h, m) == {i \in 1..Len(table) : InStack(table[i], m) /\ HeadOf(i, m) = h}

SetToSeq(S) == LET RECURSIVE f(_) f(T) == IF T = {} THEN <<>> ELSE
                   LET x == CHOOSE x \in T : \A y \in T : x <= y IN <<x>> \o f(T \ {x})
               IN f(S)

\* the rest of the chain: registrations later than the handler that ran last, in the stack of the CURRENT method, matching the
\* CURRENT path.  (Within one method this is the next group head; after a method override it may be a member of a group whose
\* head was registered earlier -- it is later-registered than the running handler, so it belongs to the rest of the chain.)
Cand == {h \in 1..Len(table) : InStack(table[h], curM) /\ h > gpos /\ Matches(table[h], curP)}
\* the handlers that run with registration h without re-matching: h and the members merged behind it in curM's stack
Following(h, m) == {i \in Members(HeadOf(h, m), m) : i >= h}
AllowSet == {m \in RouteMethods \ {curM} :
               \E h \in Heads(m) : table[h].kind # "use" /\ Matches(table[h], curP)}

Init == /\ table = <<>> /\ req = <<"", "">> /\ phase = "build" /\ curM = "" /\ curP = ""
        /\ gpos = 0 /\ rest = <<>> /\ matchedEP = FALSE /\ ran = <<>> /\ status = 0 /\ allow = {}

Register == /\ phase = "build" /\ Len(table) < MaxRoutes
            /\ \E r \in RouteRec : table' = Append(table, r)
            /\ UNCHANGED <<req, phase, curM, curP, gpos, rest, matchedEP, ran, status, allow>>

Request == /\ phase = "build" /\ Len(table) > 0
           /\ \E m \in Methods, p \in Paths : req' = <<m, p>> /\ curM' = m /\ curP' = p
           /\ phase' = "run"
           /\ UNCHANGED <<table, gpos, rest, matchedEP, ran, status, allow>>

\* effect of running the handler of registration i
RunHandler(i) ==
  LET b == table[i].beh IN
  /\ ran' = Append(ran, i)
  /\ CASE b.t = "stop" -> phase' = "done" /\ status' = 200 /\ UNCHANGED <<curM, curP>>
       [] b.t = "next" -> UNCHANGED <<phase, status, curM, curP>>
       [] b.t = "rw"   -> curP' = b.to /\ UNCHANGED <<phase, status, curM>>
       [] b.t = "ov"   -> curM' = b.to /\ UNCHANGED <<phase, status, curP>>

\* Next() inside a merged route: its next handler, no re-matching
Inner == /\ phase = "run" /\ rest # <<>>
         /\ RunHandler(Head(rest)) /\ rest' = Tail(rest) /\ gpos' = Head(rest)
         /\ UNCHANGED <<table, req, matchedEP, allow>>

\* Next() at the end of a route (or the start of the request): first later route that matches NOW
Dispatch == /\ phase = "run" /\ rest = <<>> /\ Cand # {}
            /\ LET h == CHOOSE x \in Cand : \A y \in Cand : x <= y
                   ms == SetToSeq(Following(h, curM))
               IN /\ gpos' = h
                  /\ matchedEP' = (matchedEP \/ table[h].kind # "use")
                  /\ RunHandler(Head(ms)) /\ rest' = Tail(ms)
            /\ UNCHANGED <<table, req, allow>>

Exhausted == /\ phase = "run" /\ rest = <<>> /\ Cand = {}
             /\ phase' = "done"
             /\ IF ~matchedEP /\ AllowSet # {} THEN status' = 405 /\ allow' = AllowSet
                                               ELSE status' = 404 /\ allow' = {}
             /\ UNCHANGED <<table, req, curM, curP, gpos, rest, matchedEP, ran>>

Next == Register \/ Request \/ Inner \/ Dispatch \/ Exhausted
Spec == Init /\ [][Next]_vars

---------------------------------------------------------------------------
\* What the measured match relation must respect: spellings of a path that the configuration declares equal are handled by
\* the same routes ("whether a route handles a path" is a question about the path, not about its spelling).  a and b are equal
\* when every flag in `needs` is on: "nocase" = CaseSensitive off, "unesc" = UnescapePath on, "nonstrict" = StrictRouting off.
EquivTable == { [a |-> "/abc",   b |-> "/ABC",     needs |-> {"nocase"}],
                [a |-> "/abc",   b |-> "/%61bc",   needs |-> {"unesc"}],
                [a |-> "/abc",   b |-> "/%41bc",   needs |-> {"unesc", "nocase"}],
                [a |-> "/abc",   b |-> "/%41%42C", needs |-> {"unesc", "nocase"}],
                [a |-> "/abc/d", b |-> "/abc/%44", needs |-> {"unesc", "nocase"}],
                [a |-> "/abc/d", b |-> "/abc/%64", needs |-> {"unesc"}],
                [a |-> "/abc/d", b |-> "/ABC/D",   needs |-> {"nocase"}],
                [a |-> "/abc",   b |-> "/abc/",    needs |-> {"nonstrict"}] }
SameRoutes(a, b) == \A pat \in Pats, k \in {"use", "ep"} : (<<pat, k, a>> \in MatchSet) <=> (<<pat, k, b>> \in MatchSet)
NormRespected == \A e \in EquivTable : (e.needs \subseteq CfgFlags /\ e.a \in Paths /\ e.b \in Paths) => SameRoutes(e.a, e.b)

\* Design-level properties of the abstract dispatch (checked on every generated state)
RanInRegistrationOrder == \A i \in 1..(Len(ran) - 1) : ran[i] < ran[i + 1]
RanOnlyApplicable == \A i \in 1..Len(ran) : table[ran[i]].kind = "use" \/ MethodsOf(table[ran[i]].kind) \subseteq RouteMethods
ReplyOnlyWhenDone == (status # 0) <=> (phase = "done")
AllowNeverCurrent == curM \notin allow
\* a handler is never run twice
RanOnce == Cardinality({ran[i] : i \in 1..Len(ran)}) = Len(ran)

Emit == phase = "done" =>
          PrintT(<<"CASE", ToJson([table |-> table, req |-> req, ran |-> ran, status |-> status,
                                    allow |-> allow, finalM |-> curM, finalP |-> curP])>>)
=============================================================================
