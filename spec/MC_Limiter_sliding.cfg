SPECIFICATION Spec
CONSTANTS
  Procs = {1, 2}
  Keys = {"k1", "k2"}
  Alg = "sliding"
  Exp = 3
  Maxes = {1, 2}
  SkipFailed = FALSE
  SkipSuccessful = FALSE
  MaxClock = 4
  Locking = TRUE
  MaxReq = 2
  HistDepth = 0
VIEW View
CONSTRAINT Bound
INVARIANT NoLostUpdate
INVARIANT AdmitWithinLimit
INVARIANT RejectOnlyExhausted
INVARIANT MutexHolder
INVARIANT WindowBudget
PROPERTY OtherKeysUntouched
