SPECIFICATION Spec
CONSTANTS
  MaxRanges = 2
  MaxOffers = 3
  QSet = {0, 500, 800, 1000}
  PSets <- PFull
  TokMaxRanges = 2
INVARIANT Emit
INVARIANT ZeroNeverSelects
INVARIANT AbsentSelectsFirst
