SPECIFICATION TSpec
CONSTANTS
  Procs = {1, 2, 3, 4}
  Keys = {"k1", "k2"}
  Faults = {"", "get1", "get2", "lock"}
  Locking = TRUE
  TraceFile = "trace.ndjson"
VIEW TView
CONSTRAINT HighWater
INVARIANT AtMostOnce
INVARIANT SameAnswer
INVARIANT RecordedIsExecuted
INVARIANT FaultMeansNoRun
INVARIANT MutexPerKey
INVARIANT BypassUnaffected
POSTCONDITION Diagnose
CHECK_DEADLOCK FALSE
