SPECIFICATION Spec
CONSTANTS
  Reqs = {1, 2}
  Objs = {1, 2}
  Chans = {1, 2}
  Compete = TRUE
INVARIANT WriteOwn
INVARIANT SendOwn
INVARIANT Belongs
INVARIANT Emit
