----------------------------- MODULE PathMatch -----------------------------
(***************************************************************************
 Reference semantics of fiber route patterns (properties C02 and C03).

 A pattern is a sequence of segments
     [k |-> "c", s |-> <chars, escapes removed>, txt |-> "pattern text"]      constant
     [k |-> "p", name, opt, gr, con, txt]                                    parameter
 (all records carry all fields so that TLC can compare them).
 The semantics is declarative: Match(pat, path, mode, cs) is the SET of all value
 tuples theta such that substituting theta into the pattern reproduces `path`
 -- the implementation is a non-backtracking right-to-left greedy scanner.

 Paths are sequences of tokens: one-character strings, or percent triples
 "%41" that decode to one character iff UnescapePath.
 ***************************************************************************)
EXTENDS Str, TLC, Json

C(s, txt) == [k |-> "c", s |-> s, txt |-> txt, name |-> "", opt |-> FALSE, gr |-> FALSE, con |-> "none"]
P(name, opt, gr, con, txt) == [k |-> "p", s |-> <<>>, txt |-> txt, name |-> name, opt |-> opt, gr |-> gr, con |-> con]

---------------------------------------------------------------------------
(* Constraints: predicates over character sequences, written from the docs *)
IsUInt(v) == Len(v) > 0 /\ AllIn(v, Digits)
IsInt(v)  == Len(v) > 0 /\ (IF v[1] \in {"-", "+"} THEN IsUInt(Tail(v)) ELSE IsUInt(v))   \* strconv.Atoi
IntVal(v) == IF v[1] = "-" THEN 0 - NatOf(Tail(v)) ELSE IF v[1] = "+" THEN NatOf(Tail(v)) ELSE NatOf(v)
BoolWords == { <<"1">>, <<"t">>, <<"T">>, <<"t","r","u","e">>, <<"T","R","U","E">>, <<"T","r","u","e">>,
               <<"0">>, <<"f">>, <<"F">>, <<"f","a","l","s","e">>, <<"F","A","L","S","E">>, <<"F","a","l","s","e">> }
Sat(con, v) ==
  CASE con = "none"    -> TRUE
    [] con = "int"     -> IsInt(v)
    [] con = "bool"    -> v \in BoolWords
    [] con = "alpha"   -> AllIn(v, Letters)
    [] con = "minLen2" -> Len(v) >= 2
    [] con = "maxLen3" -> Len(v) <= 3
    [] con = "len2"    -> Len(v) = 2
    [] con = "betweenLen23" -> Len(v) >= 2 /\ Len(v) <= 3
    [] con = "min5"    -> IsInt(v) /\ IntVal(v) >= 5
    [] con = "max20"   -> IsInt(v) /\ IntVal(v) <= 20
    [] con = "range5_20" -> IsInt(v) /\ IntVal(v) >= 5 /\ IntVal(v) <= 20
    [] con = "min5maxLen3" -> IsInt(v) /\ IntVal(v) >= 5 /\ Len(v) <= 3      \* two constraints on one parameter
    [] con = "regexA"  -> Len(v) > 0 /\ AllIn(v, {"a"})                       \* regex(^a+$)
    [] con = "even"    -> Len(v) % 2 = 0                                       \* custom constraint registered by the harness
    [] con = "oddfloat" -> Len(v) % 2 = 1                                      \* custom constraint registered under the built-in name "float"

---------------------------------------------------------------------------
EqC(a, b, cs) == IF cs THEN a = b ELSE Lower(a) = Lower(b)
AllOptFrom(pat, i) == \A q \in i..Len(pat) : pat[q].k = "p" /\ pat[q].opt
\* what may follow a constant whose trailing '/' is dropped: empty optional parameters and, outside the
\* strict mode, further bare "/" constants (/a/:y?/ accepts /a)
RestDroppable(pat, i, mode) == \A q \in i..Len(pat) :
    (pat[q].k = "p" /\ pat[q].opt) \/ (mode # "strict" /\ pat[q].k = "c" /\ pat[q].s = <<"/">>)
NParams(pat, i) == Cardinality({q \in i..Len(pat) : pat[q].k = "p"})
Empties(n) == [q \in 1..n |-> <<>>]

(* mode: "strict"  exact substitution
         "lenient" additionally the FINAL constant segment may drop its trailing '/'
         "use"     middleware: the substitution is a prefix of the path
   In every mode the '/' that ends a constant segment followed only by optional
   parameters may be dropped together with those (empty) parameters. *)
RECURSIVE M(_, _, _, _, _, _)
M(pat, i, path, j, mode, cs) ==
  IF i > Len(pat) THEN (IF j > Len(path) \/ mode = "use" THEN {<<>>} ELSE {})
  ELSE LET seg == pat[i] IN
   IF seg.k = "c" THEN
     LET n == Len(seg.s) IN
     (IF j + n - 1 <= Len(path) /\ EqC(SubSeq(path, j, j + n - 1), seg.s, cs)
        THEN M(pat, i + 1, path, j + n, mode, cs) ELSE {})
     \cup
     (IF /\ seg.s[n] = "/" /\ j + n - 2 = Len(path)
         /\ (n = 1 \/ EqC(SubSeq(path, j, j + n - 2), SubSeq(seg.s, 1, n - 1), cs))
         /\ RestDroppable(pat, i + 1, mode)
         /\ (i < Len(pat) \/ mode # "strict")
      THEN {Empties(NParams(pat, i + 1))} ELSE {})
   ELSE
     UNION { { <<SubSeq(path, j, j + m - 1)>> \o rest : rest \in M(pat, i + 1, path, j + m, mode, cs) } :
             m \in { mm \in 0..(Len(path) - j + 1) :
                      LET v == SubSeq(path, j, j + mm - 1) IN
                      /\ (mm > 0 \/ seg.opt)
                      /\ (seg.gr \/ ~HasChar(v, "/"))
                      /\ (mm = 0 \/ Sat(seg.con, v)) } }

---------------------------------------------------------------------------
(* Configuration-dependent normalisation *)
\* "%E2%84%AA" is the KELVIN SIGN (U+212A, three bytes, a letter whose Unicode lower case "k" has ONE byte): the specification
\* folds ASCII letters only, so it stays what it is.  Matching works on bytes, so it is three characters "B+E2" "B+84" "B+AA" here
\* (the harness renders an element "B+XX" as that byte)
Tok3 == {"%41", "%61", "%2F", "%2D", "%E2%84%AA"}
DecT(t) == CASE t = "%41" -> <<"A">> [] t = "%61" -> <<"a">> [] t = "%2F" -> <<"/">> [] t = "%2D" -> <<"-">> [] t = "%E2%84%AA" -> <<"B+E2","B+84","B+AA">> [] OTHER -> <<t>>
FlatT(t) == CASE t = "%41" -> <<"%","4","1">> [] t = "%61" -> <<"%","6","1">> [] t = "%2F" -> <<"%","2","F">>
              [] t = "%2D" -> <<"%","2","D">> [] t = "%E2%84%AA" -> <<"%","E","2","%","8","4","%","A","A">> [] OTHER -> <<t>>
Decode(path, unesc) == Concat([i \in 1..Len(path) |-> IF unesc THEN DecT(path[i]) ELSE FlatT(path[i])])

\* the pattern as registered under cfg: trailing slashes of the pattern text are trimmed unless StrictRouting
PatText(pat) == Concat([i \in 1..Len(pat) |-> IF pat[i].k = "c" THEN pat[i].s ELSE <<"?">>])
RECURSIVE TrimAll(_)
TrimAll(s) == IF s # <<>> /\ s[Len(s)] = "/" THEN TrimAll(SubSeq(s, 1, Len(s) - 1)) ELSE s
TrimPat(pat) ==
  LET last == pat[Len(pat)] IN
  IF last.k # "c" \/ last.s[Len(last.s)] # "/" \/ (Len(pat) = 1 /\ Len(last.s) = 1) THEN pat
  ELSE LET t == TrimAll(last.s) IN
       IF t = <<>> THEN (IF Len(pat) = 1 THEN <<[last EXCEPT !.s = <<"/">>]>> ELSE SubSeq(pat, 1, Len(pat) - 1))
       ELSE SubSeq(pat, 1, Len(pat) - 1) \o <<[last EXCEPT !.s = t]>>
NormPat(pat, cfg) == IF cfg.strict THEN pat ELSE TrimPat(pat)

\* candidate normal forms of the request path: without StrictRouting a path stands for
\* every path that differs from it in trailing slashes only
Slashes(k) == [i \in 1..k |-> "/"]
PathForms(p, cfg) ==
  IF cfg.strict THEN {p}
  ELSE LET s == StripTrail(p, "/") IN
       IF s = <<"/">> THEN {s} ELSE {s \o Slashes(k) : k \in 0..2}

All(pat, path, cfg, mode) ==
  LET np == NormPat(pat, cfg)
      dp == Decode(path, cfg.unesc)
  IN UNION { M(np, 1, q, 1, mode, cfg.cs) : q \in PathForms(dp, cfg) }

AllMust(pat, path, cfg) == All(pat, path, cfg, "strict")
AllMay(pat, path, cfg)  == All(pat, path, cfg, "lenient")
AllUse(pat, path, cfg)  == All(pat, path, cfg, "use")

---------------------------------------------------------------------------
(* Precondition of C03 *)
Delims == {"/", "-", "."}
Delimited(pat) == \A i \in 1..Len(pat) : pat[i].k = "p" =>
                     (i = Len(pat) \/ (pat[i + 1].k = "c" /\ pat[i + 1].s[1] \in Delims))

Subst(pat, th) ==
  LET idx(i) == Cardinality({q \in 1..i : pat[q].k = "p"})
  IN Concat([i \in 1..Len(pat) |-> IF pat[i].k = "c" THEN pat[i].s ELSE th[idx(i)]])

\* literal searched for by a parameter: the following constant, trailing '/' trimmed
Lit(s) == StripTrail(s, "/")
\* count-based: from the start of parameter i's value on, its following literal occurs exactly as
\* often as the constant segments after i contribute
NoExtra(pat, th) ==
  LET idx(i) == Cardinality({q \in 1..i : pat[q].k = "p"})
      piece(i) == IF pat[i].k = "c" THEN pat[i].s ELSE th[idx(i)]
      tailFrom(i) == Concat([q \in 1..(Len(pat) - i + 1) |-> piece(i + q - 1)])
      constOcc(i, w) == LET S == {q \in (i + 1)..Len(pat) : pat[q].k = "c"} IN
                        IF S = {} THEN 0 ELSE
                        LET RECURSIVE sum(_) sum(T) == IF T = {} THEN 0 ELSE LET q == CHOOSE x \in T : TRUE IN Occ(w, pat[q].s) + sum(T \ {q})
                        IN sum(S)
  IN \A i \in 1..Len(pat) :
        (pat[i].k = "p" /\ i < Len(pat) /\ pat[i + 1].k = "c") =>
           LET w == Lit(pat[i + 1].s) IN Occ(w, tailFrom(i)) = constOcc(i, w)
=============================================================================
