---- MODULE MC_Cache ----
EXTENDS Cache, Json
CONSTANTS MaxReq, Invals, MCStatuses, NCs
VARIABLE nreq
Bound == \A p \in Procs : nreq[p] <= MaxReq
MCInit == Init /\ nreq = [p \in Procs |-> 0]
MCNext == \/ \E p \in Procs : (Step(p) \/ Reuse(p)) /\ UNCHANGED nreq
          \/ \E p \in Procs : \E k \in Keys, nc \in NCs, iv \in Invals, rb \in Bodies, rs \in MCStatuses :
                nreq[p] < MaxReq /\ Start(p, k, nc, FALSE, iv, rb, rs) /\ nreq' = [nreq EXCEPT ![p] = @ + 1]
          \/ (\E d \in 1..Exp : Tick(d)) /\ UNCHANGED nreq
MCSpec == MCInit /\ [][MCNext]_<<vars, nreq>>
====
