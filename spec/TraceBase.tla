------------------------------ MODULE TraceBase ------------------------------
(* Shared trace-validation idiom: the recorded execution is an ndjson file; `l` is the cursor,
   `silent` bounds the unlogged steps between two consumed events; acceptance is the high-water
   mark of the cursor kept in TLC register 7 (needs -workers 1).  A line {"ev":"reset"} starts the
   next recorded execution, so many traces are validated in one TLC run. *)
EXTENDS Naturals, Sequences, TLC, Json
CONSTANT TraceFile
VARIABLES l, silent
Trace == ndJsonDeserialize(TraceFile)
Cur == Trace[l]
More == l <= Len(Trace)
IsEv(e) == More /\ Cur.ev = e
Consume == l' = l + 1 /\ silent' = 0
Silent(maxSilent) == More /\ silent < maxSilent /\ silent' = silent + 1 /\ UNCHANGED l
HighWater == TLCSet(7, IF TLCGet(7) < l THEN l ELSE TLCGet(7))
Accepted == TLCGet(7) = Len(Trace) + 1
\* printed when the trace is rejected: the index of the first event that could not be consumed
Diagnose == Accepted \/ PrintT(<<"REJECTED_AT", TLCGet(7)>>)
=============================================================================
