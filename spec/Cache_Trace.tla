---------------------------- MODULE Cache_Trace ----------------------------
(* Backward conformance for C14: executions of the real cache middleware over a gated external storage
   (all schedules the gate scheduler produces) must be behaviours of Cache.tla.  Storage calls, the
   KeyGenerator, the origin handler and the end of each request are logged; lock/unlock, the hit/expired/miss
   decision, heap bookkeeping and eviction picks are silent steps TLC infers. *)
EXTENDS Cache, TraceBase

TInit == TLCSet(7, 0) /\ Init /\ l = 1 /\ silent = 0
P == Cur.p
TStart == IsEv("start") /\ Start(P, Cur.key, Cur.nc, Cur.ns, Cur.iv, Cur.rb, Cur.rs) /\ Consume
\* metadata read: exactly the live entry (absent entries read as exp = 0)
TGetMeta == IsEv("getmeta") /\ Fetch(P) /\ loc[P].key = Cur.key
            /\ loc'[P].e.exp = Cur.exp /\ (Cur.exp # 0 => (loc'[P].e.hidx = Cur.hidx /\ loc'[P].e.status = Cur.status)) /\ Consume
TGetBody == IsEv("getbody") /\ GetBody(P) /\ loc[P].key = Cur.key /\ loc'[P].b = Cur.val /\ Consume
TDelMeta == IsEv("delmeta") /\ ((DelMeta(P) /\ loc[P].key = Cur.key) \/ (EvDelMeta(P) /\ loc[P].ek = Cur.key)) /\ Consume
TDelBody == IsEv("delbody") /\ ((DelBody(P) /\ loc[P].key = Cur.key) \/ (EvDelBody(P) /\ loc[P].ek = Cur.key)) /\ Consume
THandler == IsEv("handler") /\ (Handler(P) \/ Bypass(P)) /\ Consume
TSetBody == IsEv("setbody") /\ SetBody(P) /\ loc[P].key = Cur.key /\ Cur.val = loc[P].rbody /\ Cur.ttl = Exp /\ Consume
TSetMeta == IsEv("setmeta") /\ SetMeta(P) /\ loc[P].key = Cur.key
            /\ meta'[Cur.key].exp = Cur.exp /\ meta'[Cur.key].status = Cur.status /\ Cur.ttl = Exp
            /\ (MaxBytes > 0 => meta'[Cur.key].hidx = Cur.hidx) /\ Consume
\* the response the client got
TEnd == IsEv("end") /\ pc[P] = "done" /\ out[P].status = Cur.status /\ out[P].body = Cur.body /\ out[P].x = Cur.x
        /\ Reuse(P) /\ Consume
TTick == IsEv("tick") /\ Tick(Cur.d) /\ Consume
TReset == IsEv("reset") /\ Consume
          /\ clock' = 0 /\ meta' = [k \in Keys |-> NilM] /\ body' = [k \in Keys |-> NilB] /\ heap' = {} /\ stored' = 0 /\ mutex' = 0
          /\ pc' = [p \in Procs |-> "idle"] /\ loc' = [p \in Procs |-> NoLoc]
          /\ out' = [p \in Procs |-> [status |-> 0, body |-> "", x |-> "", good |-> TRUE]]
          /\ last' = [k \in Keys |-> [status |-> 0, body |-> ""]] /\ corrupt' = FALSE
TSilent == Silent(8) /\ \E p \in Procs : LockA(p) \/ Decide(p) \/ HeapRemove(p) \/ Serve(p) \/ UnlockA(p) \/ LockB(p)
                                           \/ Evict(p) \/ HeapPut(p) \/ UnlockB(p)
TNext == TStart \/ TGetMeta \/ TGetBody \/ TDelMeta \/ TDelBody \/ THandler \/ TSetBody \/ TSetMeta \/ TEnd \/ TTick \/ TReset \/ TSilent
TSpec == TInit /\ [][TNext]_<<vars, l, silent>>
TView == <<vars, l, silent>>
=============================================================================
