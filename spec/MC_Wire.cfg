SPECIFICATION Spec
INVARIANT Emit
INVARIANT NoResponseAfterMalformed
